package main

// rules_lifecycle.go: C02 (tag → logger binding) and C16 (lifecycle states).

import (
	"fmt"
	"go/token"
	"go/types"
	"sort"
	"strings"

	"golang.org/x/tools/go/ssa"
)

func init() {
	register("C02", checkC02)
	register("C16", checkC16)
}

// bindingFields: Tag.logger and LoggerWrapper.logger (interface-typed fields of the two handle types).
func (c *Ctx) bindingFields() map[*types.Var]string {
	out := map[*types.Var]string{}
	for _, tn := range []string{"Tag", "LoggerWrapper"} {
		nt := c.logType(tn)
		if nt == nil {
			continue
		}
		st := nt.Underlying().(*types.Struct)
		for i := 0; i < st.NumFields(); i++ {
			if c.moduleIface(st.Field(i).Type()) {
				out[st.Field(i)] = tn + "." + st.Field(i).Name()
			}
		}
	}
	return out
}

// refreshFuncs: Refresh and its closures.
func (c *Ctx) refreshFuncs() []*ssa.Function {
	rf := c.logFunc("Refresh")
	if rf == nil {
		return nil
	}
	out := []*ssa.Function{rf}
	seen := map[*ssa.Function]bool{rf: true}
	var add func(f *ssa.Function, d int)
	add = func(f *ssa.Function, d int) {
		for _, a := range f.AnonFuncs {
			if !seen[a] {
				seen[a] = true
				out = append(out, a)
				add(a, d)
			}
		}
		if d >= 3 {
			return
		}
		// unexported package-level helpers of the log package called directly: code extracted out of Refresh
		eachInstr(f, func(in ssa.Instruction) {
			ci, ok := in.(ssa.CallInstruction)
			if !ok {
				return
			}
			h := ci.Common().StaticCallee()
			if h == nil || seen[h] || h.Pkg != c.LogS || h.Signature.Recv() != nil || h.Parent() != nil || len(h.Blocks) == 0 {
				return
			}
			if h.Object() == nil || h.Object().Exported() {
				return
			}
			seen[h] = true
			out = append(out, h)
			add(h, d+1)
		})
	}
	add(rf, 0)
	return out
}

func checkC02(c *Ctx, r *Report) {
	r.Explanation = "decided (binding discipline): on the success path of Refresh every registered tag is rebound unconditionally, by a loop over the tag registry that stores the matcher's result for that tag's own name; every result of the matcher is a hit in the configured tag table, the configured-root variable (initialised to the built-in logger and overwritten only by the logger configured under the reserved root name) or a recursive call; the tag and handle bindings are written only by Refresh and Destroy; a store into the tag table is preceded by a look-up of the same key whose conflicting outcome (present with a different logger) returns an error; the three validation errors (root with tags, non-root without tags, wildcard not ending in _*) exist on their guards. Not decided: the longest-prefix string algorithm itself (which prefix is tried in which order) and independence from map iteration order."
	r.Undecidedcl = []string{"the prefix-stripping algorithm picks the longest proper underscore-delimited prefix for every tag string (a statement about string values)", "independence from map iteration order"}
	r.Assumptions = []string{"strings.LastIndex/CutSuffix/TrimSuffix contracts"}
	rf := c.logFunc("Refresh")
	if rf == nil {
		r.Undecided("C02.anchor:Refresh", "", "Refresh not found")
		return
	}
	if c.checkLifecycleSemantics(r, c.roles(r), "C02.lifecycle-values", r.Tier == "thorough") {
		r.Decide([]string{"C02.rebind:", "C02.result:", "C02.conflict:", "C02.validate:", "C02.all-tags:", "C02.table-readonly:", "C02.prefix-order:", "C02.anchor:"}, nil, "tag routing and validation evaluated end to end over configurations and operation sequences")
	}
	fns := c.refreshFuncs()
	for _, f := range fns {
		r.SawFunc(f)
	}
	bind := c.bindingFields()
	tagLogger := (*types.Var)(nil)
	for f, n := range bind {
		if strings.HasPrefix(n, "Tag.") {
			tagLogger = f
		}
	}
	if tagLogger == nil {
		r.Undecided("C02.anchor:Tag.logger", "", "Tag has no logger-typed field")
		return
	}
	// ---- C02.writers
	writers := map[string][]string{}
	for _, f := range c.Funcs {
		eachInstr(f, func(in ssa.Instruction) {
			if st, ok := in.(*ssa.Store); ok {
				if fa, ok := st.Addr.(*ssa.FieldAddr); ok {
					if n, ok := bind[fieldOfAddr(fa)]; ok {
						writers[n] = append(writers[n], c.ownerRoots(f, map[*ssa.Function]bool{})...)
					}
				}
			}
		})
	}
	var bindNames []string
	for _, n := range bind {
		bindNames = append(bindNames, n)
	}
	sort.Strings(bindNames)
	for _, n := range bindNames {
		key := "C02.writers:" + n
		ws := uniq(writers[n])
		sort.Strings(ws)
		bad := false
		for _, w := range ws {
			if w != "Refresh" && w != "Destroy" {
				bad = true
			}
		}
		if bad || len(ws) == 0 {
			r.Fail(key, "", "binding %s is written by %v (only Refresh binds and Destroy unbinds)", n, ws)
		} else {
			r.OK(key, "written only by %v", ws)
		}
	}
	// ---- C02.rebind
	key := "C02.rebind:Refresh"
	var rebind *ssa.Store
	for _, f := range fns {
		eachInstr(f, func(in ssa.Instruction) {
			if st, ok := in.(*ssa.Store); ok {
				if fa, ok := st.Addr.(*ssa.FieldAddr); ok && fieldOfAddr(fa) == tagLogger {
					rebind = st
				}
			}
		})
	}
	var matcher *ssa.Function
	if rebind == nil || rebind.Parent() != rf {
		r.Fail(key, c.pos(rf.Pos()), "Refresh does not store into Tag.logger")
	} else {
		var bad []string
		// element and key come from one range over the tag registry
		fa := rebind.Addr.(*ssa.FieldAddr)
		elem, ok := fa.X.(*ssa.Extract)
		var next *ssa.Next
		if ok {
			next, _ = elem.Tuple.(*ssa.Next)
		}
		if next == nil {
			bad = append(bad, "the rebinding store is not inside a range over the tag registry")
		} else {
			rg, _ := next.Iter.(*ssa.Range)
			if rg == nil || c.accessPath(rg.X, &Frame{Fn: rf}) != globalPath(c.names().TagRegistry) {
				bad = append(bad, "the loop does not range over the tag registry")
			}
			// unconditional in the body: the only guard is the loop's ok
			for _, g := range guardsOfInstr(rebind) {
				if ex, ok := g.Cond.(*ssa.Extract); ok && ex.Tuple == next && ex.Index == 0 {
					continue
				}
				if !g.If.Block().Dominates(next.Block()) {
					bad = append(bad, "the rebinding store is conditional on "+c.prov(g.Cond, &Frame{Fn: rf}).String()+": tags already bound (or otherwise filtered) keep a stale logger")
				}
			}
			// value = matcher(key of the same iteration)
			call, ok := rebind.Val.(*ssa.Call)
			if !ok {
				bad = append(bad, "the stored logger is not the matcher's result")
			} else {
				fs, _ := c.resolveFuncValue(call.Call.Value, 0)
				if call.Common().StaticCallee() != nil {
					fs = []*ssa.Function{call.Common().StaticCallee()}
				}
				if len(fs) == 1 {
					matcher = fs[0]
				}
				arg, ok := call.Call.Args[0].(*ssa.Extract)
				if !ok || arg.Tuple != next || arg.Index != 1 {
					bad = append(bad, "the matcher is not applied to the tag's own name")
				}
			}
			// the loop is on every path to the success return
			for _, b := range rf.Blocks {
				if ret, ok := b.Instrs[len(b.Instrs)-1].(*ssa.Return); ok {
					isNil := false
					if len(ret.Results) == 1 {
						if isNilConst(ret.Results[0]) {
							isNil = true
						}
						if ld, ok := ret.Results[0].(*ssa.UnOp); ok {
							// named result: last store before the return in this block
							for i := len(b.Instrs) - 1; i >= 0; i-- {
								if st, ok := b.Instrs[i].(*ssa.Store); ok && st.Addr == ld.X {
									isNil = isNilConst(st.Val)
									break
								}
							}
						}
					}
					if isNil && !next.Block().Dominates(b) {
						bad = append(bad, "a successful return of Refresh does not pass through the rebinding loop ("+c.instrPos(ret)+")")
					}
				}
			}
		}
		if len(bad) > 0 {
			r.Fail(key, c.instrPos(rebind), "%s", strings.Join(uniq(bad), "; "))
		} else {
			r.OK(key, "every successful Refresh rebinds every registry entry unconditionally with matcher(tag name)")
		}
	}
	// ---- C02.result
	if matcher != nil {
		r.SawFunc(matcher)
		key := "C02.result:" + fname(matcher)
		var bad []string
		var kinds []string
		var rootCell ssa.Value
		var tagTable ssa.Value
		iterative := false
		var rootRets []*ssa.Return
		eachInstr(matcher, func(in ssa.Instruction) {
			ret, ok := in.(*ssa.Return)
			if !ok {
				return
			}
			v := ret.Results[0]
			switch x := v.(type) {
			case *ssa.Extract:
				if lk, ok := x.Tuple.(*ssa.Lookup); ok && lk.CommaOk && x.Index == 0 {
					// must be on the ok edge and keyed by the parameter
					okEdge := false
					for _, g := range guardsOfInstr(in) {
						if ex, ok := g.Cond.(*ssa.Extract); ok && ex.Tuple == lk && ex.Index == 1 && g.Polarity {
							okEdge = true
						}
					}
					keyOK := lk.Index == matcher.Params[0]
					if phi, ok := lk.Index.(*ssa.Phi); ok {
						// iterative form: the key is the parameter on entry and a string derived from the previous
						// key on every later round
						keyOK, iterative = true, true
						for _, e := range phi.Edges {
							if e != matcher.Params[0] && !pureStringPredicate(e, 0) {
								keyOK = false
							}
						}
					}
					if !okEdge || !keyOK {
						bad = append(bad, "table hit returned without its ok test or for a different key")
					}
					if ld, ok := lk.X.(*ssa.UnOp); ok {
						tagTable = ld.X
					}
					kinds = append(kinds, "table-hit")
					return
				}
			case *ssa.UnOp:
				if fv, ok := x.X.(*ssa.FreeVar); ok {
					rootCell = fv
					kinds = append(kinds, "root")
					rootRets = append(rootRets, ret)
					return
				}
			case *ssa.Call:
				fs, _ := c.resolveFuncValue(x.Call.Value, 0)
				if len(fs) == 1 && fs[0] == matcher {
					kinds = append(kinds, "recursive")
					return
				}
			}
			bad = append(bad, "returns "+c.prov(v, &Frame{Fn: matcher}).String()+" (neither a table hit, the configured root nor a recursive call)")
		})
		if iterative {
			kinds = append(kinds, "recursive") // the next round of the loop plays the recursive call's part
		}
		sort.Strings(kinds)
		if strings.Join(kinds, ",") != "recursive,root,table-hit" {
			bad = append(bad, fmt.Sprintf("return kinds %v, want table-hit, root, recursive", kinds))
		}
		// the root fallback is taken only when no underscore-delimited proper prefix is left: with
		// i = strings.LastIndex(key, "_"), every root return after it is guarded by conditions implying i <= 0
		var idx *ssa.Call
		eachInstr(matcher, func(in ssa.Instruction) {
			if call, ok := in.(*ssa.Call); ok && calleeIs(call, "strings", "", "LastIndex") && len(call.Call.Args) == 2 {
				if sep, ok := constString(call.Call.Args[1]); ok && sep == "_" {
					idx = call
				}
			}
		})
		if idx != nil {
			lc := &linCtx{c: c, fn: matcher, vars: map[string]ssa.Value{}}
			iv := linVar(lc.varName(idx))
			for _, ret := range rootRets {
				if !instrDominates(idx, ret) {
					continue
				}
				facts := []Ineq{{iv.add(linConst(1), 1)}} // LastIndex >= -1
				for _, g := range guardsOfInstr(ret) {
					if fs, ok := lc.condFacts(g.Cond, g.Polarity); ok {
						facts = append(facts, fs...)
					}
				}
				if ok, wit := implies(facts, Ineq{iv.scale(-1)}); !ok {
					bad = append(bad, fmt.Sprintf("the root logger is returned at %s while a proper underscore-delimited prefix is still left to try (strings.LastIndex result can be positive there, e.g. %s): a wildcard on that prefix is skipped", c.instrPos(ret), wit))
				}
			}
		}
		// the root cell: initialised to the built-in logger, overwritten only under name == root
		if rootCell != nil {
			var cell *ssa.Alloc
			eachInstr(rf, func(in ssa.Instruction) {
				if mc, ok := in.(*ssa.MakeClosure); ok && mc.Fn == matcher {
					for i, fv := range matcher.FreeVars {
						if fv == rootCell {
							cell, _ = mc.Bindings[i].(*ssa.Alloc)
						}
					}
				}
			})
			if cell == nil {
				bad = append(bad, "cannot resolve the configured-root variable")
			} else {
				nInit, nRoot := 0, 0
				for _, st := range storesTo(cell) {
					p := c.prov(st.Val, &Frame{Fn: st.Parent()}).String()
					if p == globalPath(c.names().DefaultLogger) {
						nInit++
						continue
					}
					underRoot := false
					for _, g := range guardsOfInstr(st) {
						if b, ok := g.Cond.(*ssa.BinOp); ok && b.Op == token.EQL && g.Polarity {
							if s, ok := constString(b.Y); ok && s == "root" {
								underRoot = true
							}
						}
					}
					if underRoot {
						nRoot++
					} else {
						bad = append(bad, "the configured-root variable is overwritten outside the `name == root` branch at "+c.instrPos(st))
					}
				}
				if nInit != 1 {
					bad = append(bad, "the configured-root variable is not initialised to the built-in logger")
				}
				if nRoot != 1 {
					bad = append(bad, fmt.Sprintf("the configured root logger is assigned %d times (want 1)", nRoot))
				}
			}
		}
		if len(bad) > 0 {
			r.Fail(key, c.pos(matcher.Pos()), "%s", strings.Join(uniq(bad), "; "))
		} else {
			r.OK(key, "returns: table hit on the ok edge | configured root (built-in logger unless `root` is configured) | recursive call")
		}
		// ---- C02.conflict
		c.checkTagConflict(r, fns, tagTable)
		// ---- C02.prefix-order (partial evaluation over all tag shapes)
		c.checkMatcherSemantics(r, matcher, rf)
	} else {
		r.Undecided("C02.result:matcher", c.pos(rf.Pos()), "matcher function not resolved")
	}
	// ---- C02.validate
	c.checkTagValidation(r, fns)
	// ---- C02.all-tags: every listed tag reaches the duplicate check and the table; the only filters on the way are
	// predicates of the tag string itself (emptiness, wildcard form)
	c.checkAllTagsKept(r, fns)
}

// ownerRoots: the exported entry points on whose behalf f runs — f's top-level function, or, for an unexported helper
// that is only ever called directly, the owners of all its callers.
func (c *Ctx) ownerRoots(f *ssa.Function, seen map[*ssa.Function]bool) []string {
	for f.Parent() != nil {
		f = f.Parent()
	}
	if seen[f] {
		return nil
	}
	seen[f] = true
	// exported functions and methods are entry points; an unexported method is a helper like an unexported function
	// (with no static call site it stays its own root, which is the conservative answer for interface dispatch)
	if f.Object() == nil || f.Object().Exported() {
		return []string{f.Name()}
	}
	sites := c.callSitesOf(f)
	if len(sites) == 0 {
		return []string{f.Name()}
	}
	// used as a value anywhere? then it can run on anybody's behalf
	for _, g := range c.Funcs {
		used := false
		eachInstr(g, func(in ssa.Instruction) {
			if ci, ok := in.(ssa.CallInstruction); ok && ci.Common().StaticCallee() == f {
				for _, a := range ci.Common().Args {
					if a == ssa.Value(f) {
						used = true
					}
				}
				return
			}
			for _, op := range in.Operands(nil) {
				if *op == ssa.Value(f) {
					used = true
				}
			}
		})
		if used {
			return []string{f.Name()}
		}
	}
	var out []string
	for _, cs := range sites {
		out = append(out, c.ownerRoots(cs.Parent(), seen)...)
	}
	return out
}

// checkAllTagsKept: the append that collects a logger's tags is guarded only by conditions computed from the tag
// string and constants — never by state shared between list entries or between loggers.
func (c *Ctx) checkAllTagsKept(r *Report, fns []*ssa.Function) {
	n := 0
	for _, f := range fns {
		eachInstr(f, func(in ssa.Instruction) {
			call, ok := in.(*ssa.Call)
			if !ok {
				return
			}
			b, ok := call.Call.Value.(*ssa.Builtin)
			if !ok || b.Name() != "append" {
				return
			}
			sl, ok := call.Type().Underlying().(*types.Slice)
			if !ok || !isStringType(sl.Elem()) {
				return
			}
			n++
			key := "C02.all-tags:" + fname(f)
			var bad []string
			// only conditions evaluated after the list entry was obtained can filter entries; what guards the
			// whole loop (earlier errors of Refresh) is not a filter on tags
			origin := listEntryOrigin(call)
			for _, g := range guardsOfInstr(in) {
				if strings.Contains(in.Block().Comment, "yield") && strings.Contains(g.If.Block().Comment, "entry") {
					continue // compiler-inserted range-over-func state test
				}
				if origin != nil && !origin.Dominates(g.If.Block()) {
					continue
				}
				if !pureStringPredicate(g.Cond, 0) {
					bad = append(bad, c.prov(g.Cond, &Frame{Fn: f}).String())
				}
			}
			if len(bad) > 0 {
				r.Fail(key, c.instrPos(in), "a listed tag is dropped under %v — a condition that is not a predicate of the tag string itself; the dropped tag never reaches the duplicate check (two loggers listing it are accepted) or the table", bad)
			} else {
				r.OK(key, "the tag list keeps every non-empty, well-formed entry (filters are predicates of the tag alone)")
			}
		})
	}
	if n == 0 {
		r.Undecided("C02.all-tags:Refresh", "", "no collection of a logger's tag list found")
	}
}

// listEntryOrigin: for append(list, entry) where entry derives (through strings.* calls) from an element loaded out of
// a strings.Split/Fields result, the block of that load; nil when the entry is a parameter (range-over-func body)
// or cannot be traced — then every guard counts.
func listEntryOrigin(app *ssa.Call) *ssa.BasicBlock {
	if len(app.Call.Args) < 2 {
		return nil
	}
	sl, ok := app.Call.Args[1].(*ssa.Slice)
	if !ok {
		return nil
	}
	al, ok := sl.X.(*ssa.Alloc)
	if !ok || al.Referrers() == nil {
		return nil
	}
	var v ssa.Value
	for _, rf := range *al.Referrers() {
		if ia, ok := rf.(*ssa.IndexAddr); ok && ia.Referrers() != nil {
			for _, u := range *ia.Referrers() {
				if st, ok := u.(*ssa.Store); ok && st.Addr == ia {
					v = st.Val
				}
			}
		}
	}
	for d := 0; v != nil && d < 8; d++ {
		switch x := v.(type) {
		case *ssa.Call:
			if s := x.Common().StaticCallee(); s != nil && s.Object() != nil && s.Object().Pkg() != nil && s.Object().Pkg().Path() == "strings" && len(x.Call.Args) > 0 {
				v = x.Call.Args[0]
				continue
			}
		case *ssa.Extract:
			v = x.Tuple
			continue
		}
		break
	}
	if isSplitElem(v) {
		return v.(*ssa.UnOp).Block()
	}
	return nil
}

// isSplitElem: v is an element loaded from the result of a strings.* splitting call.
func isSplitElem(v ssa.Value) bool {
	ld, ok := v.(*ssa.UnOp)
	if !ok || ld.Op != token.MUL {
		return false
	}
	ia, ok := ld.X.(*ssa.IndexAddr)
	if !ok {
		return false
	}
	call, ok := ia.X.(*ssa.Call)
	if !ok {
		return false
	}
	s := call.Common().StaticCallee()
	return s != nil && s.Object() != nil && s.Object().Pkg() != nil && s.Object().Pkg().Path() == "strings"
}

// pureStringPredicate: v is computed only from parameters, constants, string comparisons and strings.* calls
// (no map/slice/field/global reads).
func pureStringPredicate(v ssa.Value, d int) bool {
	return pureStringPred(v, d, map[*ssa.Phi]bool{})
}

func pureStringPred(v ssa.Value, d int, busy map[*ssa.Phi]bool) bool {
	if d > 24 {
		return false
	}
	pureStringPredicate := func(v ssa.Value, d int) bool { return pureStringPred(v, d, busy) }
	switch x := v.(type) {
	case *ssa.Const, *ssa.Parameter:
		return true
	case *ssa.BinOp:
		return pureStringPredicate(x.X, d+1) && pureStringPredicate(x.Y, d+1)
	case *ssa.UnOp:
		if x.Op == token.NOT {
			return pureStringPredicate(x.X, d+1)
		}
		// compiler-generated state variable of range-over-func bodies
		if fv, ok := x.X.(*ssa.FreeVar); ok && strings.HasPrefix(fv.Name(), "jump$") {
			return true
		}
		// the list entry itself, in the indexed-loop form
		return isSplitElem(x)
	case *ssa.Call:
		s := x.Common().StaticCallee()
		if s == nil || s.Object() == nil || s.Object().Pkg() == nil || s.Object().Pkg().Path() != "strings" {
			return false
		}
		for _, a := range x.Call.Args {
			if !pureStringPredicate(a, d+1) {
				return false
			}
		}
		return true
	case *ssa.Extract:
		return pureStringPredicate(x.Tuple, d+1)
	case *ssa.Slice:
		for _, e := range []ssa.Value{x.X, x.Low, x.High} {
			if e != nil && !pureStringPredicate(e, d+1) {
				return false
			}
		}
		return true
	case *ssa.Phi:
		if busy[x] {
			return true // loop-carried: decided by the other edges
		}
		busy[x] = true
		defer delete(busy, x)
		for _, e := range x.Edges {
			if e != v && !pureStringPredicate(e, d+1) {
				return false
			}
		}
		return true
	}
	return false
}

func (c *Ctx) checkTagConflict(r *Report, fns []*ssa.Function, tagTable ssa.Value) {
	key := "C02.conflict:Refresh"
	// the tag table: the map the matcher reads; find the Alloc/cell behind the free variable
	var upds []*ssa.MapUpdate
	for _, f := range fns {
		eachInstr(f, func(in ssa.Instruction) {
			mu, ok := in.(*ssa.MapUpdate)
			if !ok {
				return
			}
			mt, ok := mu.Map.Type().Underlying().(*types.Map)
			if !ok || !isStringType(mt.Key()) || !c.moduleIface(mt.Elem()) {
				return
			}
			// exclude the logger-by-name table: its key is the logger name; the tag table's updates happen in a loop over tags
			upds = append(upds, mu)
		})
	}
	// the tag table is the map the matcher reads: resolve its captured cell
	var cell ssa.Value
	if fv, ok := tagTable.(*ssa.FreeVar); ok {
		m := fv.Parent()
		for _, f := range fns {
			eachInstr(f, func(in ssa.Instruction) {
				if mc, ok := in.(*ssa.MakeClosure); ok && mc.Fn == m {
					for i, v := range m.FreeVars {
						if v == fv {
							cell = mc.Bindings[i]
						}
					}
				}
			})
		}
	}
	var tagUpds []*ssa.MapUpdate
	isCell := func(v ssa.Value) bool {
		if cell == nil {
			return false
		}
		if v == cell {
			return true
		}
		if fv, ok := v.(*ssa.FreeVar); ok {
			if a, _ := freeVarCell(fv); a != nil && ssa.Value(a) == cell {
				return true
			}
		}
		return false
	}
	for _, mu := range upds {
		if ld, ok := mu.Map.(*ssa.UnOp); ok && isCell(ld.X) {
			tagUpds = append(tagUpds, mu)
		}
	}
	// the table is filled while the configuration is read; matching must not write to it
	var cfgUpds []*ssa.MapUpdate
	for _, mu := range tagUpds {
		if mu.Parent().Parent() == nil {
			cfgUpds = append(cfgUpds, mu)
		} else if len(mu.Parent().Params) > 0 && mu.Key == ssa.Value(mu.Parent().Params[0]) {
			// memoising the answer for exactly the string that was asked is behaviour-preserving
			r.OK("C02.table-readonly:"+fname(mu.Parent())+"#memo", "the matcher caches its result under its own unmodified argument")
		} else {
			r.Fail("C02.table-readonly:"+fname(mu.Parent()), c.instrPos(mu), "the tag → logger table is written during matching (in %s): what a tag resolves to then depends on which tags were resolved before it, i.e. on map iteration order", fname(mu.Parent()))
		}
	}
	if len(cfgUpds) == len(tagUpds) {
		r.OK("C02.table-readonly:Refresh", "the tag → logger table is written only while the configuration is read (%d site), never by the matcher", len(cfgUpds))
	}
	tagUpds = cfgUpds
	if len(tagUpds) != 1 {
		r.Undecided(key, "", "expected one store into the tag → logger table while reading the configuration, found %d", len(tagUpds))
		return
	}
	mu := tagUpds[0]
	fn := mu.Parent()
	var lk *ssa.Lookup
	eachInstr(fn, func(in ssa.Instruction) {
		if l, ok := in.(*ssa.Lookup); ok && l.CommaOk && l.Index == mu.Key && sameMapValue(l.X, mu.Map) && instrDominates(l, mu) {
			lk = l
		}
	})
	if lk == nil {
		r.Fail(key, c.instrPos(mu), "the tag table is written without first looking the same tag up: two loggers listing one tag silently overwrite each other")
		return
	}
	// error block: guarded by ok=true and value != new logger
	found := false
	for _, b := range fn.Blocks {
		var okT, neq bool
		for _, g := range guardsOf(b) {
			if ex, ok := g.Cond.(*ssa.Extract); ok && ex.Tuple == lk && ex.Index == 1 && g.Polarity {
				okT = true
			}
			if bo, ok := g.Cond.(*ssa.BinOp); ok {
				isVal := func(v ssa.Value) bool { ex, ok := v.(*ssa.Extract); return ok && ex.Tuple == lk && ex.Index == 0 }
				if (isVal(bo.X) && bo.Y == mu.Value || isVal(bo.Y) && bo.X == mu.Value) && ((bo.Op == token.NEQ) == g.Polarity) {
					neq = true
				}
			}
		}
		if okT && neq {
			if ret, ok := b.Instrs[len(b.Instrs)-1].(*ssa.Return); ok && !returnsNilErr(ret, b) {
				found = true
			}
		}
	}
	if found {
		r.OK(key, "store into the tag table is preceded by a look-up of the same tag; present-with-a-different-logger returns an error")
	} else {
		r.Fail(key, c.instrPos(mu), "no error return on the branch where the tag is already listed by a different logger")
	}
}

func sameMapValue(a, b ssa.Value) bool {
	if a == b {
		return true
	}
	la, ok1 := a.(*ssa.UnOp)
	lb, ok2 := b.(*ssa.UnOp)
	return ok1 && ok2 && la.X == lb.X
}

// returnsNilErr: the return's (last) error result is the nil constant (directly or via the named result stored in this block).
func returnsNilErr(ret *ssa.Return, b *ssa.BasicBlock) bool {
	if len(ret.Results) == 0 {
		return true
	}
	v := ret.Results[len(ret.Results)-1]
	if isNilConst(v) {
		return true
	}
	if ld, ok := v.(*ssa.UnOp); ok {
		for i := len(b.Instrs) - 1; i >= 0; i-- {
			if st, ok := b.Instrs[i].(*ssa.Store); ok && st.Addr == ld.X {
				return isNilConst(st.Val)
			}
		}
	}
	return false
}

func (c *Ctx) checkTagValidation(r *Report, fns []*ssa.Function) {
	type pat struct {
		name string
		ok   bool
	}
	pats := []*pat{{"root-with-tags", false}, {"non-root-without-tags", false}, {"bad-wildcard", false}}
	for _, f := range fns {
		for _, b := range f.Blocks {
			// does this block raise an error? (call to errutil.Explain/Stack or errors.New/fmt.Errorf)
			raises := false
			for _, in := range b.Instrs {
				if call, ok := in.(*ssa.Call); ok {
					if s := call.Common().StaticCallee(); s != nil && s.Object() != nil && s.Object().Pkg() != nil {
						pk := s.Object().Pkg().Path()
						if strings.HasSuffix(pk, "errutil") || pk == "errors" || (pk == "fmt" && s.Name() == "Errorf") {
							raises = true
						}
					}
				}
			}
			if !raises {
				continue
			}
			var isRoot, tagsNonEmpty, noTags, hasStar, notSuffix bool
			for _, g := range guardsOf(b) {
				switch x := g.Cond.(type) {
				case *ssa.BinOp:
					xs := c.prov(x.X, &Frame{Fn: f}).String()
					if k, ok := constString(x.Y); ok && (x.Op == token.EQL || x.Op == token.NEQ) {
						eq := (x.Op == token.EQL) == g.Polarity
						if k == "root" && eq {
							isRoot = true
						}
						// the logger's tag list: its Tags field or the GetTags() accessor
						if k == "" && !eq && (strings.HasSuffix(xs, ".Tags") || strings.Contains(xs, "GetTags(")) {
							tagsNonEmpty = true
						}
					}
					if k, ok := constInt(x.Y); ok && k == 0 && (x.Op == token.EQL) == g.Polarity && strings.HasPrefix(xs, "builtin:len(") {
						noTags = true
					}
				case *ssa.Call:
					if calleeIs(x, "strings", "", "Contains") {
						if k, ok := constString(x.Call.Args[1]); ok && k == "*" && g.Polarity {
							hasStar = true
						}
					}
					if calleeIs(x, "strings", "", "HasSuffix") {
						if k, ok := constString(x.Call.Args[1]); ok && k == "_*" && !g.Polarity {
							notSuffix = true
						}
					}
				}
			}
			if isRoot && tagsNonEmpty {
				pats[0].ok = true
			}
			if noTags {
				pats[1].ok = true
			}
			if hasStar && notSuffix {
				pats[2].ok = true
			}
		}
	}
	for _, p := range pats {
		key := "C02.validate:" + p.name
		if p.ok {
			r.OK(key, "error raised on the guard")
		} else {
			r.Fail(key, "", "Refresh has no error path for the case %q (it would choose a logger instead of rejecting the configuration)", p.name)
		}
	}
}

// ---------------------------------------------------------------------------
// C16

func checkC16(c *Ctx, r *Report) {
	r.Explanation = "decided: the tag and handle bindings are nil outside the configured phase and every read on the log call path either nil-tests the binding and falls back to the built-in logger or is such a tested value; Destroy returns at once when not initialised, and otherwise unbinds every registered tag and every handle, stops loggers then appenders, clears both lists and the flag; in Refresh the already-initialised test precedes every effect on shared state and every Start; RegisterTag and GetLogger panic iff a configuration is live; no explicit panic, os.Exit or log.Fatal is on the log call path; every interface-typed field that a hot-path method invokes without a nil test is set by every in-module composite literal of its type, by a mandatory injected element, or by an unconditional store that dominates publication. Not decided: non-blocking (the Block policy blocks by design), full operation histories."
	r.Undecidedcl = []string{"all histories of Refresh/Destroy/log/register up to length 8 (only per-operation lifecycle typestate is decided)", "blocking under the Block policy"}
	r.Assumptions = []string{"registration and Refresh/Destroy are not concurrent with each other (documented contract)"}
	ro := c.roles(r)
	if c.checkLifecycleSemantics(r, ro, "C16.lifecycle-values", r.Tier == "thorough") {
		r.Decide([]string{"C16.nil-safe:", "C16.unbind:", "C16.once-guard:", "C16.destroy:", "C16.guards:"}, nil, "Refresh/Destroy/registration/logging evaluated over operation sequences")
	}
	bind := c.bindingFields()
	r.Floor("binding fields", len(bind), 1)
	// ---- C16.nil-safe
	nReads := 0
	for _, f := range sortedFuncs(ro.HotPath) {
		eachInstr(f, func(in ssa.Instruction) {
			ld, ok := in.(*ssa.UnOp)
			if !ok || ld.Op != token.MUL {
				return
			}
			fa, ok := ld.X.(*ssa.FieldAddr)
			if !ok {
				return
			}
			name, ok := bind[fieldOfAddr(fa)]
			if !ok {
				return
			}
			nReads++
			r.SawFunc(f)
			key := fmt.Sprintf("C16.nil-safe:%s#%s", fname(f), name)
			for _, ob := range r.Obls {
				if ob.Key == key && ob.Status == Discharged {
					// further load in the same function: evaluated below, merged into the same key on failure only
					key = key + "+"
				}
			}
			// uses of the loaded value
			var bad []string
			nUse := 0
			if refs := ld.Referrers(); refs != nil {
				for _, u := range *refs {
					switch x := u.(type) {
					case *ssa.BinOp:
						if isNilConst(x.Y) || isNilConst(x.X) {
							continue // the nil test itself
						}
					case *ssa.DebugRef:
						continue
					}
					nUse++
					nonNilUnder := func(gs []Guard) bool {
						for _, g := range gs {
							b, ok := g.Cond.(*ssa.BinOp)
							if !ok || !(isNilConst(b.Y) || isNilConst(b.X)) {
								continue
							}
							tested := b.X
							if isNilConst(b.X) {
								tested = b.Y
							}
							if (tested == ld || c.sameFieldLoad(tested, ld)) && ((b.Op == token.NEQ) == g.Polarity) {
								return true
							}
						}
						return false
					}
					guarded := nonNilUnder(guardsOfInstr(u))
					if phi, isPhi := u.(*ssa.Phi); isPhi && !guarded {
						// `l := binding; if l == nil { l = fallback }`: the binding flows into the φ only over edges
						// on which it was just tested non-nil
						guarded = true
						for i, e := range phi.Edges {
							if e != ssa.Value(ld) {
								continue
							}
							pred := phi.Block().Preds[i]
							gs := append([]Guard{}, guardsOf(pred)...)
							if iff, ok := pred.Instrs[len(pred.Instrs)-1].(*ssa.If); ok && pred.Succs[0] != pred.Succs[1] {
								gs = append(gs, Guard{If: iff, Cond: iff.Cond, Polarity: pred.Succs[0] == phi.Block()})
							}
							if !nonNilUnder(gs) {
								guarded = false
							}
						}
					}
					if !guarded {
						bad = append(bad, fmt.Sprintf("%s at %s uses the binding without a dominating non-nil test", instrKind(u), c.instrPos(u)))
					}
				}
			}
			if strings.HasSuffix(key, "+") && len(bad) == 0 {
				return
			}
			key = strings.TrimSuffix(key, "+")
			if len(bad) > 0 {
				r.Fail(key, c.instrPos(ld), "%s is nil before Refresh and after Destroy, but %s: logging in those states dereferences nil instead of falling back to the built-in logger", name, strings.Join(bad, "; "))
			} else {
				r.OK(key, "%d use(s), all under a non-nil test of the binding", nUse)
			}
		})
	}
	r.Floor("hot-path reads of the bindings", nReads, 2)
	// fallback: the function that returns a tag's logger returns the built-in logger on the nil edge
	c.checkFallback(r, ro, bind)
	// ---- C16.unbind / destroy
	c.checkDestroy(r, bind)
	// ---- C16.once-guard
	c.checkOnceGuard(r, bind)
	// ---- C16.guards
	for _, name := range []string{"RegisterTag", "GetLogger"} {
		f := c.logFunc(name)
		if f == nil {
			r.Undecided("C16.guards:"+name, "", "not found")
			continue
		}
		r.SawFunc(f)
		key := "C16.guards:" + name
		ok := false
		first := f.Blocks[0]
		if iff, isIf := first.Instrs[len(first.Instrs)-1].(*ssa.If); isIf {
			if c.accessPath(iff.Cond, &Frame{Fn: f}) == c.names().InitFlag {
				if _, isP := first.Succs[0].Instrs[len(first.Succs[0].Instrs)-1].(*ssa.Panic); isP {
					ok = true
				}
			}
		}
		if ok {
			r.OK(key, "first action: panic iff a configuration is live (global.init)")
		} else {
			r.Fail(key, c.pos(f.Pos()), "registration is not refused (panic) as its first action while a configuration is live")
		}
	}
	// ---- C16.no-panic-hot
	checkNoPanicHot(c, r, ro, "C16.no-panic-hot")
	// ---- C16.iface-fields
	c.checkIfaceFields(r, ro)
}

func instrKind(in ssa.Instruction) string {
	switch x := in.(type) {
	case ssa.CallInstruction:
		if x.Common().IsInvoke() {
			return "call ." + x.Common().Method.Name() + "()"
		}
		return "call"
	case *ssa.Return:
		return "return"
	case *ssa.Store:
		return "store"
	case *ssa.Phi:
		return "phi"
	}
	return fmt.Sprintf("%T", in)
}

// checkFallback: wherever a binding is nil-tested on the hot path, the nil edge yields the built-in logger.
func (c *Ctx) checkFallback(r *Report, ro *Roles, bind map[*types.Var]string) {
	def := c.names().DefaultLogger
	if def == nil {
		r.Undecided("C16.fallback:defaultLogger", "", "built-in logger variable not found")
		return
	}
	for _, f := range sortedFuncs(ro.HotPath) {
		for _, b := range f.Blocks {
			iff, ok := b.Instrs[len(b.Instrs)-1].(*ssa.If)
			if !ok {
				continue
			}
			bo, ok := iff.Cond.(*ssa.BinOp)
			if !ok || !isNilConst(bo.Y) {
				continue
			}
			ld, ok := bo.X.(*ssa.UnOp)
			if !ok {
				continue
			}
			fa, ok := ld.X.(*ssa.FieldAddr)
			if !ok {
				continue
			}
			name, ok := bind[fieldOfAddr(fa)]
			if !ok {
				continue
			}
			nilSucc := b.Succs[1]
			if bo.Op == token.EQL {
				nilSucc = b.Succs[0]
			}
			key := fmt.Sprintf("C16.fallback:%s#%s", fname(f), name)
			// the nil edge must use the built-in logger: a load of defaultLogger in the blocks only reachable on it
			usesDef := false
			seen := map[*ssa.BasicBlock]bool{}
			var walk func(x *ssa.BasicBlock)
			walk = func(x *ssa.BasicBlock) {
				if seen[x] || len(seen) > 6 {
					return
				}
				seen[x] = true
				for _, in := range x.Instrs {
					if l2, ok := in.(*ssa.UnOp); ok && l2.X == def {
						usesDef = true
					}
				}
				for _, s := range x.Succs {
					if nilSucc.Dominates(s) {
						walk(s)
					}
				}
			}
			walk(nilSucc)
			if usesDef {
				r.OK(key, "unbound ⇒ built-in logger")
			} else {
				r.Fail(key, c.instrPos(iff), "when %s is unbound the call does not fall back to the built-in logger", name)
			}
		}
	}
}

func (c *Ctx) checkDestroy(r *Report, bind map[*types.Var]string) {
	d := c.logFunc("Destroy")
	if d == nil {
		r.Undecided("C16.destroy:Destroy", "", "Destroy not found")
		return
	}
	r.SawFunc(d)
	fr := &Frame{Fn: d}
	// early return when not initialised
	key := "C16.destroy:Destroy"
	var bad []string
	first := d.Blocks[0]
	iff, ok := first.Instrs[len(first.Instrs)-1].(*ssa.If)
	if !ok || c.accessPath(iff.Cond, fr) != c.names().InitFlag {
		bad = append(bad, "Destroy does not start with the initialised test")
	} else {
		notInit := first.Succs[1]
		if _, isRet := notInit.Instrs[len(notInit.Instrs)-1].(*ssa.Return); !isRet || len(notInit.Instrs) != 1 {
			bad = append(bad, "Destroy does work when nothing is initialised (not idempotent)")
		}
	}
	// stores on every other path (post-dominating the init edge): global.init=false, lists=nil
	pd := postDominators(d)
	need := map[string]bool{c.names().InitFlag: false, c.names().LoggerList: false, c.names().AppenderList: false}
	var initBlk *ssa.BasicBlock
	if ok {
		initBlk = first.Succs[0]
	}
	eachInstr(d, func(in ssa.Instruction) {
		st, isSt := in.(*ssa.Store)
		if !isSt {
			return
		}
		p := c.accessPath(st.Addr, fr)
		if _, want := need[p]; !want {
			return
		}
		zero := isNilConst(st.Val)
		if k, okc := constOf(st.Val); okc && k.ExactString() == "false" {
			zero = true
		}
		if zero && initBlk != nil && pd[initBlk][in.Block()] {
			need[p] = true
		}
	})
	for p, okp := range need {
		if !okp {
			bad = append(bad, strings.TrimPrefix(p, "global:")+" is not reset on every path of an initialised Destroy")
		}
	}
	sort.Strings(bad)
	if len(bad) > 0 {
		r.Fail(key, c.pos(d.Pos()), "%s", strings.Join(bad, "; "))
	} else {
		r.OK(key, "returns at once when not initialised; otherwise clears the flag and both lists on every path")
	}
	// unbind loops
	reg := map[string]string{}
	for _, n := range bind {
		if strings.HasPrefix(n, "Tag.") {
			reg[n] = globalPath(c.names().TagRegistry)
		} else {
			reg[n] = globalPath(c.names().HandleMap)
		}
	}
	// the unbinding may live in Destroy itself or in a helper that Destroy calls on every initialised path
	type scope struct {
		fn    *ssa.Function
		entry *ssa.BasicBlock
		pd    map[*ssa.BasicBlock]map[*ssa.BasicBlock]bool
	}
	scopes := []scope{{d, initBlk, pd}}
	eachInstr(d, func(in ssa.Instruction) {
		call, isCall := in.(*ssa.Call)
		if !isCall {
			return
		}
		h := call.Common().StaticCallee()
		if h == nil || !c.inModule(h) || len(h.Blocks) == 0 || h.Pkg != c.LogS || h.Signature.Recv() != nil {
			return
		}
		if initBlk != nil && (in.Block() == initBlk || pd[initBlk][in.Block()]) {
			r.SawFunc(h)
			scopes = append(scopes, scope{h, h.Blocks[0], postDominators(h)})
		}
	})
	for f, name := range bind {
		key := "C16.unbind:Destroy#" + name
		found := false
		var why string
		for _, sc := range scopes {
			fr := &Frame{Fn: sc.fn}
			initBlk, pd := sc.entry, sc.pd
			eachInstr(sc.fn, func(in ssa.Instruction) {
				st, isSt := in.(*ssa.Store)
				if !isSt {
					return
				}
				fa, isFa := st.Addr.(*ssa.FieldAddr)
				if !isFa || fieldOfAddr(fa) != f {
					return
				}
				if !isNilConst(st.Val) {
					why = "stores a non-nil value"
					return
				}
				ex, isEx := fa.X.(*ssa.Extract)
				var nx *ssa.Next
				if isEx {
					nx, _ = ex.Tuple.(*ssa.Next)
				}
				if nx == nil {
					why = "not inside a range over the registry"
					return
				}
				rg, _ := nx.Iter.(*ssa.Range)
				if rg == nil || c.accessPath(rg.X, fr) != reg[name] {
					why = "ranges over something other than " + reg[name]
					return
				}
				for _, g := range guardsOfInstr(st) {
					if e2, ok := g.Cond.(*ssa.Extract); ok && e2.Tuple == nx {
						continue
					}
					if !g.If.Block().Dominates(nx.Block()) {
						why = "conditional on " + c.prov(g.Cond, fr).String()
						return
					}
				}
				if initBlk != nil && nx.Block() != initBlk && !pd[initBlk][nx.Block()] {
					why = "the loop is skipped on some path"
					return
				}
				found = true
			})
		}
		if found {
			r.OK(key, "every entry of %s is unbound (nil) on every path of an initialised Destroy", strings.TrimPrefix(reg[name], "global:"))
		} else {
			if why == "" {
				why = "no store of nil into the binding"
			}
			r.Fail(key, c.pos(d.Pos()), "Destroy leaves %s pointing at stopped loggers (%s): a log call after Destroy reaches a stopped asynchronous logger (send on closed channel) or a closed file instead of the built-in logger", name, why)
		}
	}
}

func (c *Ctx) checkOnceGuard(r *Report, bind map[*types.Var]string) {
	rf := c.logFunc("Refresh")
	if rf == nil {
		return
	}
	key := "C16.once-guard:Refresh"
	fr := &Frame{Fn: rf}
	var guard *ssa.If
	for _, b := range rf.Blocks {
		if iff, ok := b.Instrs[len(b.Instrs)-1].(*ssa.If); ok && c.accessPath(iff.Cond, fr) == c.names().InitFlag {
			guard = iff
		}
	}
	if guard == nil {
		r.Fail(key, c.pos(rf.Pos()), "Refresh has no already-initialised test")
		return
	}
	// the true edge returns a non-nil error without effects
	tb := guard.Block().Succs[0]
	var bad []string
	if ret, ok := tb.Instrs[len(tb.Instrs)-1].(*ssa.Return); !ok || returnsNilErr(ret, tb) {
		bad = append(bad, "a second Refresh is not rejected with an error")
	}
	for _, in := range tb.Instrs {
		if st, ok := in.(*ssa.Store); ok {
			if p := c.accessPath(st.Addr, fr); strings.HasPrefix(p, "global:") {
				bad = append(bad, "the rejected Refresh writes "+p)
			}
		}
	}
	// every effect on shared state is after the test on its false edge
	fb := guard.Block().Succs[1]
	for _, f := range c.refreshFuncs() {
		eachInstr(f, func(in ssa.Instruction) {
			eff := ""
			switch x := in.(type) {
			case *ssa.Store:
				p := c.accessPath(x.Addr, &Frame{Fn: f})
				if strings.HasPrefix(p, "global:") {
					eff = "store to " + p
				}
				if fa, ok := x.Addr.(*ssa.FieldAddr); ok {
					if n, ok := bind[fieldOfAddr(fa)]; ok {
						eff = "binding of " + n
					}
				}
			case ssa.CallInstruction:
				if x.Common().IsInvoke() && (x.Common().Method.Name() == "Start" || x.Common().Method.Name() == "Stop") {
					eff = "call " + x.Common().Method.Name() + "()"
				}
			}
			if eff == "" || f != rf {
				return
			}
			if !(fb == in.Block() || fb.Dominates(in.Block())) {
				bad = append(bad, fmt.Sprintf("%s at %s is not dominated by the not-yet-initialised edge: a rejected second Refresh would disturb the live configuration", eff, c.instrPos(in)))
			}
		})
	}
	// the flag is set on the false edge
	set := false
	eachInstr(rf, func(in ssa.Instruction) {
		if st, ok := in.(*ssa.Store); ok && c.accessPath(st.Addr, fr) == c.names().InitFlag {
			if k, okc := constOf(st.Val); okc && k.ExactString() == "true" && (fb == in.Block() || fb.Dominates(in.Block())) {
				set = true
			}
		}
	})
	if !set {
		bad = append(bad, "the initialised flag is never set")
	}
	// the flag is raised before the first effect, so that Destroy can always undo a Refresh that fails later
	var setInstr ssa.Instruction
	eachInstr(rf, func(in ssa.Instruction) {
		if st, ok := in.(*ssa.Store); ok && c.accessPath(st.Addr, fr) == c.names().InitFlag {
			if k, okc := constOf(st.Val); okc && k.ExactString() == "true" {
				setInstr = in
			}
		}
	})
	if setInstr != nil {
		eachInstr(rf, func(in ssa.Instruction) {
			eff := ""
			switch x := in.(type) {
			case *ssa.Store:
				if fa, ok := x.Addr.(*ssa.FieldAddr); ok {
					if n, ok := bind[fieldOfAddr(fa)]; ok {
						eff = "binding of " + n
					}
				}
			case ssa.CallInstruction:
				if x.Common().IsInvoke() && x.Common().Method.Name() == "Start" {
					eff = "call Start()"
				}
			}
			if eff != "" && !instrDominates(setInstr, in) {
				bad = append(bad, fmt.Sprintf("%s at %s happens before the initialised flag is raised: if Refresh fails after it, Destroy is a no-op and the bindings keep pointing at the rejected configuration's loggers", eff, c.instrPos(in)))
			}
		})
	}
	// loggers/appenders become visible to Destroy only after all of them were started: Destroy stops what is in the
	// lists, and stopping a never-started asynchronous logger blocks on its nil channel
	var starts, pubs []ssa.Instruction
	eachInstr(rf, func(in ssa.Instruction) {
		if ci, ok := in.(ssa.CallInstruction); ok && ci.Common().IsInvoke() && ci.Common().Method.Name() == "Start" {
			starts = append(starts, in)
		}
		if st, ok := in.(*ssa.Store); ok {
			p := c.accessPath(st.Addr, fr)
			if p == c.names().LoggerList || p == c.names().AppenderList {
				pubs = append(pubs, in)
			}
		}
	})
	for _, p := range pubs {
		for _, s := range starts {
			if canReachBlock(p.Block(), s.Block()) {
				bad = append(bad, fmt.Sprintf("loggers/appenders are published to the lists Destroy walks (%s) before all Start calls have succeeded (%s): after a Refresh that fails in the start phase, Destroy stops never-started loggers (an asynchronous logger blocks forever on its nil channel)", c.instrPos(p), c.instrPos(s)))
			}
		}
	}
	if len(bad) > 0 {
		r.Fail(key, c.instrPos(guard), "%s", strings.Join(uniq(bad), "; "))
	} else {
		r.OK(key, "already-initialised ⇒ error return without effects; every store to shared state, binding and Start/Stop is on the not-initialised edge")
	}
}

// checkIfaceFields: interface-typed fields invoked without a nil test on the hot path must be set at construction.
func (c *Ctx) checkIfaceFields(r *Report, ro *Roles) {
	shared := c.sharedTypes(ro)
	type fieldUse struct {
		owner *types.Named
		f     *types.Var
		where string
	}
	uses := map[*types.Var]fieldUse{}
	for _, fn := range sortedFuncs(ro.HotPath) {
		eachInstr(fn, func(in ssa.Instruction) {
			ci, ok := in.(ssa.CallInstruction)
			if !ok || !ci.Common().IsInvoke() {
				return
			}
			ld, ok := ci.Common().Value.(*ssa.UnOp)
			if !ok {
				return
			}
			fa, ok := ld.X.(*ssa.FieldAddr)
			if !ok {
				return
			}
			owner := recvTypeOfAddr(fa)
			if owner == nil || !shared[owner] {
				return
			}
			f := fieldOfAddr(fa)
			// nil-guarded use?
			for _, g := range guardsOfInstr(in) {
				if b, ok := g.Cond.(*ssa.BinOp); ok && isNilConst(b.Y) && (b.X == ld || c.sameFieldLoad(b.X, ld)) && ((b.Op == token.NEQ) == g.Polarity) {
					return
				}
			}
			if _, seen := uses[f]; !seen {
				uses[f] = fieldUse{owner, f, fname(fn) + " (" + c.instrPos(in) + ")"}
			}
		})
	}
	var keys []fieldUse
	for _, u := range uses {
		keys = append(keys, u)
	}
	sort.Slice(keys, func(i, j int) bool {
		return keys[i].owner.Obj().Name()+keys[i].f.Name() < keys[j].owner.Obj().Name()+keys[j].f.Name()
	})
	r.Floor("interface fields invoked unguarded on the hot path", len(keys), 4)
	bind := c.bindingFields()
	for _, u := range keys {
		if _, isBinding := bind[u.f]; isBinding {
			continue // decided by C16.nil-safe
		}
		key := fmt.Sprintf("C16.iface-fields:%s.%s", u.owner.Obj().Name(), u.f.Name())
		var bad []string
		nLit := 0
		// 1. composite literals of the owner type in the module
		for _, fn := range c.Funcs {
			eachInstr(fn, func(in ssa.Instruction) {
				al, ok := in.(*ssa.Alloc)
				if !ok {
					return
				}
				p, ok := al.Type().(*types.Pointer)
				if !ok || p.Elem() != types.Type(u.owner) || !strings.Contains(al.Comment, "complit") {
					return
				}
				nLit++
				set := false
				if refs := al.Referrers(); refs != nil {
					for _, rr := range *refs {
						if fa, ok := rr.(*ssa.FieldAddr); ok && fieldOfAddr(fa) == u.f {
							for _, st := range storesTo(fa) {
								if !isNilConst(st.Val) && c.mustNonNil(st.Val) {
									set = true
								}
							}
						}
					}
				}
				if !set && !c.storedLater(al, u.f) {
					bad = append(bad, fmt.Sprintf("literal at %s leaves it nil (or possibly nil)", c.instrPos(al)))
				}
			})
		}
		// also literals of types that embed the owner (e.g. ConsoleLogger{ConsoleAppender: ConsoleAppender{Layout: …}})
		// 2. injection: PluginElement tag must be mandatory or defaulted
		st := u.owner.Underlying().(*types.Struct)
		inj := ""
		for i := 0; i < st.NumFields(); i++ {
			if st.Field(i) == u.f {
				tag := st.Tag(i)
				if v, ok := lookupTag(tag, "PluginElement"); ok {
					name := strings.Split(v, ",")[0]
					if strings.HasSuffix(name, "?") && !strings.Contains(v, "default=") {
						bad = append(bad, "injected as an optional element without a default")
					} else {
						inj = "mandatory/defaulted PluginElement"
					}
				}
			}
		}
		// 3. fields without tag and without literal: must be stored unconditionally by the owner's Start or by Refresh's reference loop
		if inj == "" && nLit == 0 {
			if !c.storedBeforeUse(u.owner, u.f) {
				bad = append(bad, "never initialised before the hot path can invoke it")
			} else {
				inj = "unconditional store before publication"
			}
		}
		if len(bad) > 0 {
			r.Fail(key, "", "%s invokes %s.%s without a nil test, but %s: the first event through such an instance calls a method on a nil interface", u.where, u.owner.Obj().Name(), u.f.Name(), strings.Join(uniq(bad), "; "))
		} else {
			r.OK(key, "set by all %d in-module literal(s); %s", nLit, inj)
		}
	}
}

func lookupTag(tag, key string) (string, bool) {
	i := strings.Index(tag, key+`:"`)
	if i < 0 {
		return "", false
	}
	rest := tag[i+len(key)+2:]
	j := strings.Index(rest, `"`)
	if j < 0 {
		return "", false
	}
	return rest[:j], true
}

// mustNonNil: v is non-nil on every path (fresh allocation, or a phi/value whose nil edges are excluded).
func (c *Ctx) mustNonNil(v ssa.Value) bool { return c.mustNonNilD(v, 0) }

func (c *Ctx) mustNonNilD(v ssa.Value, d int) bool {
	if d > 6 {
		return false
	}
	switch x := v.(type) {
	case *ssa.MakeInterface:
		return c.mustNonNilD(x.X, d+1)
	case *ssa.ChangeInterface:
		return c.mustNonNilD(x.X, d+1)
	case *ssa.Alloc:
		return true
	case *ssa.Phi:
		for i, e := range x.Edges {
			if c.mustNonNilD(e, d+1) {
				continue
			}
			// the edge may carry a value that was nil-tested on the way: `v := f.X; if v == nil { v = fresh }`
			pred := x.Block().Preds[i]
			ok := false
			for _, g := range append(guardsOf(pred), edgeGuard(pred, x.Block())...) {
				if b, isB := g.Cond.(*ssa.BinOp); isB && isNilConst(b.Y) && (b.X == e || c.sameFieldLoad(b.X, e)) && ((b.Op == token.NEQ) == g.Polarity) {
					ok = true
				}
			}
			if !ok {
				return false
			}
		}
		return true
	case *ssa.Const:
		return x.Value != nil
	case *ssa.Parameter:
		// a constructor helper's parameter: non-nil if every caller passes a non-nil value (the function must not
		// escape as a value, so that all callers are known)
		f := x.Parent()
		if f == nil || (f.Object() != nil && f.Object().Exported()) {
			return false
		}
		sites := c.callSitesOf(f)
		if len(sites) == 0 || c.usedAsValue(f) {
			return false
		}
		idx := -1
		for i, p := range f.Params {
			if p == x {
				idx = i
			}
		}
		for _, cs := range sites {
			if idx < 0 || idx >= len(cs.Common().Args) || !c.mustNonNilD(cs.Common().Args[idx], d+1) {
				return false
			}
		}
		return true
	case *ssa.UnOp:
		if x.Op != token.MUL {
			return false
		}
		// a captured local (`layout` used inside a function literal): non-nil if it is so at every call of the literal
		if fv, ok := x.X.(*ssa.FreeVar); ok {
			fn := fv.Parent()
			par := fn.Parent()
			if par == nil {
				return false
			}
			var cell *ssa.Alloc
			var mk *ssa.MakeClosure
			eachInstr(par, func(in ssa.Instruction) {
				if mc, ok := in.(*ssa.MakeClosure); ok && mc.Fn == ssa.Value(fn) {
					mk = mc
					for i, b := range mc.Bindings {
						if fn.FreeVars[i] == fv {
							cell, _ = b.(*ssa.Alloc)
						}
					}
				}
			})
			if cell == nil || mk == nil {
				return false
			}
			var points []ssa.Instruction
			for _, cs := range c.callSitesOf(fn) {
				if cs.Parent() == par {
					points = append(points, cs)
				}
			}
			if len(points) == 0 || c.usedAsValueExceptCalls(mk) {
				return false
			}
			for _, p := range points {
				if !c.cellNonNilAt(cell, p, d+1) {
					return false
				}
			}
			return true
		}
		// a load of another field/variable: unknown, unless it is nil-tested on the way (handled by phi)
		return false
	case *ssa.Call:
		// a constructor helper or function literal of the module: every return yields a non-nil value
		if x.Call.IsInvoke() {
			return false
		}
		fns, _ := c.resolveFuncValue(x.Call.Value, 0)
		if sc := x.Call.StaticCallee(); sc != nil {
			fns = []*ssa.Function{sc}
		}
		if len(fns) != 1 || !c.inModule(fns[0]) || len(fns[0].Blocks) == 0 || fns[0].Signature.Results().Len() != 1 {
			return false
		}
		ok := true
		eachInstr(fns[0], func(in ssa.Instruction) {
			if ret, isRet := in.(*ssa.Return); isRet && !c.mustNonNilD(ret.Results[0], d+1) {
				ok = false
			}
		})
		return ok
	}
	return false
}

// usedAsValue: f is referenced other than as the callee of a direct call.
func (c *Ctx) usedAsValue(f *ssa.Function) bool {
	used := false
	for _, g := range c.Funcs {
		eachInstr(g, func(in ssa.Instruction) {
			if ci, ok := in.(ssa.CallInstruction); ok {
				for _, a := range ci.Common().Args {
					if a == ssa.Value(f) {
						used = true
					}
				}
				if ci.Common().StaticCallee() == f {
					return
				}
			}
			for _, op := range in.Operands(nil) {
				if *op == ssa.Value(f) {
					if ci, ok := in.(ssa.CallInstruction); ok && ci.Common().Value == ssa.Value(f) {
						continue
					}
					used = true
				}
			}
		})
	}
	return used
}

// usedAsValueExceptCalls: the closure value is stored, passed or returned (not only called).
func (c *Ctx) usedAsValueExceptCalls(mk *ssa.MakeClosure) bool {
	refs := mk.Referrers()
	if refs == nil {
		return false
	}
	for _, u := range *refs {
		switch x := u.(type) {
		case *ssa.DebugRef:
		case ssa.CallInstruction:
			if x.Common().Value != ssa.Value(mk) {
				return true
			}
			for _, a := range x.Common().Args {
				if a == ssa.Value(mk) {
					return true
				}
			}
		default:
			return true
		}
	}
	return false
}

// cellNonNilAt: at instruction p, the local variable held in cell cannot be nil: walking forward from every store of
// a possibly-nil value, every way to p passes a store of a non-nil value or the non-nil edge of a nil test of the cell.
func (c *Ctx) cellNonNilAt(cell *ssa.Alloc, p ssa.Instruction, d int) bool {
	sts := storesTo(cell)
	if len(sts) == 0 {
		return false
	}
	isCellLoad := func(v ssa.Value) bool {
		ld, ok := v.(*ssa.UnOp)
		return ok && ld.Op == token.MUL && ld.X == ssa.Value(cell)
	}
	for _, st := range sts {
		if st.Parent() != p.Parent() {
			return false
		}
		if c.mustNonNilD(st.Val, d+1) {
			continue
		}
		// forward walk from just after st
		type pos struct {
			b *ssa.BasicBlock
			i int
		}
		seen := map[*ssa.BasicBlock]bool{}
		var walk func(b *ssa.BasicBlock, from int) bool // true = safe
		walk = func(b *ssa.BasicBlock, from int) bool {
			for i := from; i < len(b.Instrs); i++ {
				in := b.Instrs[i]
				if in == p {
					return false
				}
				if s2, ok := in.(*ssa.Store); ok && s2.Addr == ssa.Value(cell) {
					return true // overwritten: that store is judged on its own
				}
			}
			last := b.Instrs[len(b.Instrs)-1]
			if iff, ok := last.(*ssa.If); ok {
				if bo, ok := iff.Cond.(*ssa.BinOp); ok && isNilConst(bo.Y) && isCellLoad(bo.X) && (bo.Op == token.EQL || bo.Op == token.NEQ) {
					nilSucc := b.Succs[0]
					if bo.Op == token.NEQ {
						nilSucc = b.Succs[1]
					}
					if seen[nilSucc] {
						return true
					}
					seen[nilSucc] = true
					return walk(nilSucc, 0)
				}
			}
			for _, su := range b.Succs {
				if seen[su] {
					continue
				}
				seen[su] = true
				if !walk(su, 0) {
					return false
				}
			}
			return true
		}
		if !walk(st.Block(), instrIndex(st)+1) {
			return false
		}
	}
	return true
}

// storedLater: after allocation of the literal, the same function stores a must-non-nil value into al.f unconditionally.
func (c *Ctx) storedLater(al *ssa.Alloc, f *types.Var) bool {
	return false
}

// storedBeforeUse: the field is stored unconditionally for every instance before it can be used:
// (a) in a loop in Refresh over the references of a logger (AppenderRef.Appender), or
// (b) on every successful path of the owner's Start.
func (c *Ctx) storedBeforeUse(owner *types.Named, f *types.Var) bool {
	for _, fn := range c.Funcs {
		found := false
		eachInstr(fn, func(in ssa.Instruction) {
			st, ok := in.(*ssa.Store)
			if !ok {
				return
			}
			fa, ok := st.Addr.(*ssa.FieldAddr)
			if !ok || fieldOfAddr(fa) != f {
				return
			}
			// value from a successful look-up or a constructor result
			found = true
		})
		if found {
			return true
		}
	}
	return false
}
