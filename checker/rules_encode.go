package main

// rules_encode.go: C07 (JSON layout/encoder) and C08 (text layout/encoder).

import (
	"fmt"
	"go/ast"
	"go/constant"
	"go/token"
	"go/types"
	"sort"
	"strings"

	"golang.org/x/tools/go/ssa"
)

func init() {
	register("C07", checkC07)
	register("C08", checkC08)
}

const specTimeLayout = "2006-01-02T15:04:05.000"

var encoderMethods = []string{"AppendEncoderBegin", "AppendEncoderEnd", "AppendObjectBegin", "AppendObjectEnd",
	"AppendArrayBegin", "AppendArrayEnd", "AppendKey", "AppendBool", "AppendInt64", "AppendUint64",
	"AppendFloat64", "AppendString", "AppendReflect"}

var valueWriters = []string{"AppendBool", "AppendInt64", "AppendUint64", "AppendFloat64", "AppendString", "AppendReflect"}

// encRun is one outcome of running an encoder method abstractly.
type encRun struct {
	Events []string
	Cells  map[string]constant.Value
	Kind   string
}

type encOpts struct {
	cells    map[string]constant.Value                              // initial tracked cells (by access path suffix, e.g. "last")
	inline   func(callee *ssa.Function) bool                        // which in-module callees to analyse in context
	branch   func(s *TSCtx, iff *ssa.If, taken bool) string         // extra fact recorded on a branch ("" = none)
	assume   func(v ssa.Value, fr *Frame) (constant.Value, bool)    // extra assumptions
	callEv   func(s *TSCtx, ci ssa.CallInstruction) (string, bool)  // custom event for a call
	cellName func(c *Ctx, addr ssa.Value, fr *Frame) (string, bool) // override cell naming
}

// scalarCell: addr denotes a bool/integer struct field reachable from the root receiver; name = access path.
func scalarCell(c *Ctx, addr ssa.Value, fr *Frame) (string, bool) {
	fa, ok := addr.(*ssa.FieldAddr)
	if !ok {
		return "", false
	}
	ft := fieldOfAddr(fa).Type().Underlying()
	b, ok := ft.(*types.Basic)
	if !ok || b.Info()&(types.IsInteger|types.IsBoolean) == 0 {
		return "", false
	}
	p := c.accessPath(addr, fr)
	if strings.Contains(p, "?") || strings.HasPrefix(p, "alloc:") {
		return "", false
	}
	return p, true
}

func (c *Ctx) runEnc(fn *ssa.Function, o encOpts, r *Report) ([]encRun, []string) {
	ev := &Evaluator{Assume: o.assume}
	cn := o.cellName
	if cn == nil {
		cn = scalarCell
	}
	ev.Cell = func(addr ssa.Value, fr *Frame) (string, bool) { return cn(c, addr, fr) }
	ts := &TS{C: c, Ev: ev}
	ts.Inline = func(s *TSCtx, call ssa.CallInstruction, callee *ssa.Function) bool {
		if o.inline == nil {
			return false
		}
		return o.inline(callee)
	}
	ts.OnInstr = func(s *TSCtx, in ssa.Instruction) []string {
		ci, ok := in.(ssa.CallInstruction)
		if !ok {
			return nil
		}
		if o.callEv != nil {
			if e, ok := o.callEv(s, ci); ok {
				if e == "" || strings.Count(s.A, "\x1f"+e) >= 2 {
					return nil
				}
				return []string{s.A + "\x1f" + e}
			}
		}
		if e := c.encEvent(s, ci); e != "" {
			if strings.Count(s.A, "\x1f"+e) >= 2 {
				return nil // saturate repeated events so loops keep the automaton finite
			}
			return []string{s.A + "\x1f" + e}
		}
		return nil
	}
	ts.OnBranch = func(s *TSCtx, iff *ssa.If, taken bool) (string, bool) {
		if o.branch != nil {
			if f := o.branch(s, iff, taken); f != "" {
				return s.A + "\x1f" + f, true
			}
		}
		return "", false
	}
	env := Env{}
	for k, v := range o.cells {
		env[envKey{nil, 0, k}] = v
	}
	outs := ts.Run(fn, "", env)
	if r != nil {
		r.Count("typestate_states", ts.States)
	}
	var runs []encRun
	for _, out := range outs {
		var evs []string
		for _, e := range strings.Split(out.A, "\x1f") {
			if e != "" {
				evs = append(evs, e)
			}
		}
		runs = append(runs, encRun{Events: evs, Cells: out.Cells, Kind: out.Kind})
	}
	return runs, ts.Truncated
}

// encEvent renders buffer writes, escaper calls, formatter calls and encoder-to-encoder calls.
func (c *Ctx) encEvent(s *TSCtx, ci ssa.CallInstruction) string {
	if kind, _, arg, ok := bufWrite(ci); ok {
		// one write of a concatenation is the same byte sequence as one write per operand
		if kind == "WS" {
			if p := c.prov(arg, s.Frame).eff(); p.Kind == "concat" {
				var parts []string
				var flat func(n *PNode)
				flat = func(n *PNode) {
					if n.Kind != "call" { // a call operand stays a call (not its inlined body)
						n = n.eff()
					}
					if n.Kind == "concat" {
						for _, a := range n.Args {
							flat(a)
						}
						return
					}
					if str, ok := n.constString(); ok {
						parts = append(parts, fmt.Sprintf("WS:%q", str))
						return
					}
					parts = append(parts, "WS:"+provShort(n))
				}
				flat(p)
				return strings.Join(parts, "\x1f")
			}
		}
		if k, isK := s.Eval(arg); isK {
			switch {
			case k.Kind() == constant.Int:
				n, _ := constant.Int64Val(k)
				return fmt.Sprintf("%s:%q", kind, string(rune(n)))
			case k.Kind() == constant.String:
				return fmt.Sprintf("%s:%q", kind, constant.StringVal(k))
			}
		}
		return kind + ":" + c.argDesc(arg, s.Frame)
	}
	f := ci.Common().StaticCallee()
	if f != nil && c.inModule(f) {
		var as []string
		for i, a := range ci.Common().Args {
			if i == 0 && f.Signature.Recv() != nil {
				as = append(as, "recv="+c.accessPath(a, s.Frame))
				continue
			}
			if isBytesBufferPtr(a.Type()) {
				continue
			}
			as = append(as, c.argDesc(a, s.Frame))
		}
		return "call:" + fname(f) + "(" + strings.Join(as, ",") + ")"
	}
	if ci.Common().IsInvoke() && c.moduleIface(ci.Common().Value.Type()) {
		var as []string
		for _, a := range ci.Common().Args {
			as = append(as, c.argDesc(a, s.Frame))
		}
		return "invoke:" + c.accessPath(ci.Common().Value, s.Frame) + "." + ci.Common().Method.Name() + "(" + strings.Join(as, ",") + ")"
	}
	return ""
}

// argDesc: formatter calls with their constant arguments, otherwise the provenance string.
func (c *Ctx) argDesc(v ssa.Value, fr *Frame) string {
	p := c.prov(v, fr)
	return provShort(p)
}

func provShort(p *PNode) string {
	e := p
	if e.Kind == "call" && (strings.HasPrefix(e.Name, "strconv.") || strings.HasPrefix(e.Name, "json.") || strings.HasPrefix(e.Name, "math.") || strings.HasPrefix(e.Name, "fmt.") || strings.HasPrefix(e.Name, "strings.")) {
		var as []string
		for _, a := range e.Args {
			as = append(as, provShort(a))
		}
		return e.Name + "(" + strings.Join(as, ",") + ")"
	}
	return p.String()
}

// jsonEncoderType: the encoder that owns the token-state field (named integer type with declared constants).
func (c *Ctx) jsonEncoderType(ro *Roles) (*types.Named, *types.Var, []*ssa.NamedConst) {
	for _, e := range ro.Encoders {
		st, ok := e.Underlying().(*types.Struct)
		if !ok {
			continue
		}
		for i := 0; i < st.NumFields(); i++ {
			ft, ok := st.Field(i).Type().(*types.Named)
			if !ok || ft.Obj().Pkg() == nil || ft.Obj().Pkg().Path() != logPath {
				continue
			}
			if b, ok := ft.Underlying().(*types.Basic); !ok || b.Info()&types.IsInteger == 0 {
				continue
			}
			var ks []*ssa.NamedConst
			for _, m := range c.LogS.Members {
				if nc, ok := m.(*ssa.NamedConst); ok && types.Identical(nc.Type(), ft) {
					ks = append(ks, nc)
				}
			}
			if len(ks) >= 6 {
				sort.Slice(ks, func(i, j int) bool {
					a, _ := constant.Int64Val(ks[i].Value.Value)
					b, _ := constant.Int64Val(ks[j].Value.Value)
					return a < b
				})
				return e, st.Field(i), ks
			}
		}
	}
	return nil, nil, nil
}

func tokName(ks []*ssa.NamedConst, v constant.Value) string {
	if v == nil {
		return "?"
	}
	for _, k := range ks {
		if constant.Compare(k.Value.Value, token.EQL, v) {
			return k.Name()
		}
	}
	return v.ExactString()
}

func checkC07(c *Ctx, r *Report) {
	r.Explanation = "decided: the JSON layout emits the keys level,time,fileLine,tag,[ctxString] then context fields then call fields, then one newline, on both ctxString branches; the JSON encoder's separator automaton (evaluated for every method × every token state) writes a comma exactly after a completed value/object/array and every method sets the state to its own token; Field.Encode covers every declared ValueType and each constructor's kind family agrees with the Append method that consumes it, with inverse representation pairs; Any's type switch maps each case type to the constructor of the same kind family without conversion; integers are formatted base 10 and floats with bitSize 64 and shortest round-trip precision; non-finite floats are never written unquoted; every buffer write in the encoders is a constant, a strconv formatter result, an escaper call or a successful json.Marshal result; a marshal failure is written as a quoted, escaped string. Not decided: value fidelity beyond these table agreements (encoding/json and strconv are trusted)."
	r.Undecidedcl = []string{"decoded values equal logged values for all inputs (relies on strconv/encoding/json contracts)", "user-supplied ArrayValue implementations"}
	r.Assumptions = []string{"strconv.FormatInt/FormatUint/FormatFloat(-1,64) round-trip", "encoding/json.Marshal emits valid compact JSON without raw control characters"}
	ro := c.roles(r)
	{
		jok, tok := c.checkLayoutSemantics(r, ro, "C07.layout-values")
		layoutDecisions(r, jok, tok)
	}
	r.Floor("encoder implementations", len(ro.Encoders), 2)
	jt, lastF, toks := c.jsonEncoderType(ro)
	if jt == nil {
		r.Undecided("C07.anchor:json-encoder", "", "no encoder with a token-state field found")
		return
	}
	_, mainEsc, _, _ := c.escaperFuncs(ro)
	c.checkJSONFSM(r, ro, jt, lastF, toks, mainEsc)
	c.checkNonFinite(r, jt, mainEsc)
	c.checkNumbers(r, ro)
	c.checkSanitised(r, ro, mainEsc)
	c.checkDispatch(r, ro)
	c.checkAnySwitch(r)
	c.checkJSONLayoutOrder(r, ro)
	// "strings equal the input with each invalid UTF-8 byte replaced by U+FFFD" rests on the escaper:
	// the C09 obligations are evaluated here as well, so a change to the escaper fails this property too.
	sub := newReport("C09", r.Tier)
	checkC09(c, sub)
	sub.applyDecisions()
	nOK := 0
	for _, ob := range sub.Obls {
		if ob.Status == Discharged {
			nOK++
			continue
		}
		o2 := *ob
		o2.Key = "C07.strings/" + ob.Key
		r.add(&o2)
	}
	for f := range sub.funcsSeen {
		r.funcsSeen[f] = true
	}
	if nOK == len(sub.Obls) {
		r.OK("C07.strings/escaper", "all %d escaper obligations of C09 hold (keys and string values decode to the input, invalid bytes → U+FFFD)", nOK)
	}
}

// ---------------------------------------------------------------------------
// C07.fsm

func (c *Ctx) checkJSONFSM(r *Report, ro *Roles, jt *types.Named, lastF *types.Var, toks []*ssa.NamedConst, mainEsc *ssa.Function) {
	type cellRes struct {
		comma bool
		final string
		rest  string
	}
	res := map[string]map[string][]cellRes{} // method -> token -> outcomes
	undec := false
	for _, mname := range encoderMethods {
		m := c.method(jt, mname)
		if m == nil {
			r.Undecided("C07.fsm:"+jt.Obj().Name()+"."+mname, "", "method missing")
			undec = true
			continue
		}
		r.SawFunc(m)
		res[mname] = map[string][]cellRes{}
		recvName := "param:" + m.Params[0].Name()
		cell := recvName + "." + lastF.Name()
		for _, tk := range toks {
			runs, trunc := c.runEnc(m, encOpts{
				cells:  map[string]constant.Value{cell: tk.Value.Value},
				inline: func(f *ssa.Function) bool { return f != mainEsc },
			}, r)
			if len(trunc) > 0 {
				r.Undecided("C07.fsm:"+fname(m), c.pos(m.Pos()), "exploration truncated: %v", trunc)
				undec = true
			}
			for _, run := range runs {
				cr := cellRes{}
				evs := run.Events
				if len(evs) > 0 && evs[0] == `WB:","` {
					cr.comma = true
					evs = evs[1:]
				}
				for _, e := range evs {
					if e == `WB:","` || e == `WS:","` {
						cr.rest += "!extra-comma "
					}
				}
				cr.rest += strings.Join(evs, " ")
				cr.final = tokName(toks, run.Cells[cell])
				res[mname][tk.Name()] = append(res[mname][tk.Name()], cr)
			}
			r.Count("fsm_cells", 1)
		}
	}
	if undec {
		return
	}
	// derive token roles from behaviour
	finalOf := func(m string) (string, bool) {
		f := ""
		for _, tk := range toks {
			for _, cr := range res[m][tk.Name()] {
				if f == "" {
					f = cr.final
				} else if f != cr.final {
					return f + "/" + cr.final, false
				}
			}
		}
		return f, f != "" && f != "?"
	}
	roleTok := map[string]string{}
	okAll := true
	for _, m := range encoderMethods {
		f, ok := finalOf(m)
		key := "C07.fsm:" + jt.Obj().Name() + "." + m + "#state"
		if !ok {
			okAll = false
			r.Fail(key, c.pos(c.method(jt, m).Pos()), "method does not leave the token state at one definite token of its own (final state %s): the next separator decision is wrong", f)
			continue
		}
		roleTok[m] = f
	}
	if !okAll {
		return
	}
	V := roleTok["AppendBool"]
	for _, m := range valueWriters {
		if roleTok[m] != V {
			r.Fail("C07.fsm:"+jt.Obj().Name()+"."+m+"#state", c.pos(c.method(jt, m).Pos()), "value writer sets state %s, the other value writers set %s", roleTok[m], V)
			okAll = false
		}
	}
	K, OB, OE, AB, AE := roleTok["AppendKey"], roleTok["AppendObjectBegin"], roleTok["AppendObjectEnd"], roleTok["AppendArrayBegin"], roleTok["AppendArrayEnd"]
	distinct := map[string]bool{V: true, K: true, OB: true, OE: true, AB: true, AE: true}
	if len(distinct) != 6 {
		r.Fail("C07.fsm:"+jt.Obj().Name()+"#tokens", c.pos(jt.Obj().Pos()), "token roles are not pairwise distinct: value=%s key=%s {=%s }=%s [=%s ]=%s", V, K, OB, OE, AB, AE)
		okAll = false
	}
	if roleTok["AppendEncoderBegin"] != OB || roleTok["AppendEncoderEnd"] != OE {
		r.Fail("C07.fsm:"+jt.Obj().Name()+"#encoder-begin-end", c.pos(jt.Obj().Pos()), "AppendEncoderBegin/End do not behave as object begin/end (states %s/%s)", roleTok["AppendEncoderBegin"], roleTok["AppendEncoderEnd"])
		okAll = false
	}
	if !okAll {
		return
	}
	commaSet := map[string]bool{V: true, OE: true, AE: true}
	needsSep := map[string]bool{"AppendKey": true, "AppendObjectBegin": true, "AppendArrayBegin": true, "AppendEncoderBegin": true}
	for _, m := range valueWriters {
		needsSep[m] = true
	}
	wantRest := map[string]string{"AppendObjectBegin": `WB:"{"`, "AppendEncoderBegin": `WB:"{"`, "AppendArrayBegin": `WB:"["`,
		"AppendObjectEnd": `WB:"}"`, "AppendEncoderEnd": `WB:"}"`, "AppendArrayEnd": `WB:"]"`}
	for _, m := range encoderMethods {
		key := "C07.fsm:" + jt.Obj().Name() + "." + m
		var bad []string
		for _, tk := range toks {
			for _, cr := range res[m][tk.Name()] {
				want := needsSep[m] && commaSet[tk.Name()]
				if cr.comma != want {
					bad = append(bad, fmt.Sprintf("after %s: comma=%v want %v", tk.Name(), cr.comma, want))
				}
				if strings.Contains(cr.rest, "!extra-comma") {
					bad = append(bad, fmt.Sprintf("after %s: additional comma written", tk.Name()))
				}
				if w, ok := wantRest[m]; ok && cr.rest != w {
					bad = append(bad, fmt.Sprintf("after %s: writes [%s], want [%s]", tk.Name(), cr.rest, w))
				}
				if cr.rest == "" {
					bad = append(bad, fmt.Sprintf("after %s: writes nothing", tk.Name()))
				}
			}
		}
		if len(bad) > 0 {
			r.Fail(key, c.pos(c.method(jt, m).Pos()), "%s", strings.Join(firstN(bad, 4), "; "))
		} else {
			r.OK(key, "separator iff previous token ∈ {%s,%s,%s}; leaves state %s (all %d token states)", V, OE, AE, roleTok[m], len(toks))
		}
	}
	// key and string shapes
	for m, want := range map[string]string{
		"AppendKey":    `WB:"\"" call:WriteLogString(param:key) WB:"\"" WB:":"`,
		"AppendString": `WB:"\"" call:WriteLogString(param:v) WB:"\""`,
	} {
		mm := c.method(jt, m)
		pn := mm.Params[1].Name()
		want = strings.ReplaceAll(strings.ReplaceAll(want, "param:key", "param:"+pn), "param:v", "param:"+pn)
		if mainEsc != nil {
			want = strings.ReplaceAll(want, "WriteLogString", fname(mainEsc))
		}
		key := "C07.fsm:" + jt.Obj().Name() + "." + m + "#shape"
		got := res[m][toks[0].Name()][0].rest
		if got != want {
			r.Fail(key, c.pos(mm.Pos()), "token shape is [%s], want [%s]", got, want)
		} else {
			r.OK(key, "quote, escaper(%s), quote%s", pn, map[bool]string{true: ", colon", false: ""}[m == "AppendKey"])
		}
	}
	// constructor leaves the state at a token outside the comma set
	for _, f := range c.Funcs {
		if f.Pkg != c.LogS || f.Signature.Recv() != nil || f.Signature.Results().Len() != 1 {
			continue
		}
		if p, ok := f.Signature.Results().At(0).Type().(*types.Pointer); !ok || p.Elem() != types.Type(jt) {
			continue
		}
		key := "C07.fsm:" + fname(f) + "#initial"
		init := "zero"
		eachInstr(f, func(in ssa.Instruction) {
			if st, ok := in.(*ssa.Store); ok {
				if fa, ok := st.Addr.(*ssa.FieldAddr); ok && fieldOfAddr(fa) == lastF {
					if k, ok := constOf(st.Val); ok {
						init = tokName(toks, k)
					} else {
						init = "?"
					}
				}
			}
		})
		if init == "zero" {
			init = tokName(toks, constant.MakeInt64(0))
		}
		if commaSet[init] || init == "?" {
			r.Fail(key, c.pos(f.Pos()), "a fresh encoder starts in state %s: the first token would be preceded by a comma", init)
		} else {
			r.OK(key, "fresh encoder starts in %s (no leading comma)", init)
		}
	}
}

// ---------------------------------------------------------------------------
// C07.nonfinite

func (c *Ctx) checkNonFinite(r *Report, jt *types.Named, mainEsc *ssa.Function) {
	m := c.method(jt, "AppendFloat64")
	if m == nil {
		return
	}
	key := "C07.nonfinite:" + fname(m)
	vP := m.Params[1]
	isV := func(x ssa.Value) bool {
		for {
			switch y := x.(type) {
			case *ssa.Convert:
				x = y.X
				continue
			case *ssa.ChangeType:
				x = y.X
				continue
			}
			break
		}
		return x == vP
	}
	runs, trunc := c.runEnc(m, encOpts{
		inline: func(f *ssa.Function) bool { return f != mainEsc },
		branch: func(s *TSCtx, iff *ssa.If, taken bool) string {
			cond := iff.Cond
			pol := taken
			for {
				u, ok := cond.(*ssa.UnOp)
				if !ok || u.Op != token.NOT {
					break
				}
				cond, pol = u.X, !pol
			}
			switch x := cond.(type) {
			case *ssa.Call:
				if calleeIs(x, "math", "", "IsNaN") && isV(x.Call.Args[0]) {
					return fmt.Sprintf("fact:nan=%v", pol)
				}
				if calleeIs(x, "math", "", "IsInf") && isV(x.Call.Args[0]) {
					sg, ok := constInt(x.Call.Args[1])
					if !ok {
						return ""
					}
					switch {
					case sg == 0:
						return fmt.Sprintf("fact:inf=%v", pol)
					case sg > 0:
						return fmt.Sprintf("fact:pinf=%v", pol)
					default:
						return fmt.Sprintf("fact:ninf=%v", pol)
					}
				}
			case *ssa.BinOp:
				if isV(x.X) && isV(x.Y) {
					if x.Op == token.NEQ {
						return fmt.Sprintf("fact:nan=%v", pol)
					}
					if x.Op == token.EQL {
						return fmt.Sprintf("fact:nan=%v", !pol)
					}
				}
				if k, ok := constOf(x.Y); ok && isV(x.X) && k.Kind() == constant.Float {
					f, _ := constant.Float64Val(k)
					if x.Op == token.GTR && f >= 1.7976931348623157e308 {
						return fmt.Sprintf("fact:pinf=%v", pol)
					}
					if x.Op == token.LSS && f <= -1.7976931348623157e308 {
						return fmt.Sprintf("fact:ninf=%v", pol)
					}
				}
			}
			return ""
		},
	}, r)
	if len(trunc) > 0 {
		r.Undecided(key, c.pos(m.Pos()), "exploration truncated: %v", trunc)
		return
	}
	var bad []string
	nPaths := 0
	for _, run := range runs {
		nPaths++
		facts := map[string]string{}
		for i, e := range run.Events {
			if strings.HasPrefix(e, "fact:") {
				kv := strings.SplitN(strings.TrimPrefix(e, "fact:"), "=", 2)
				facts[kv[0]] = kv[1]
				continue
			}
			if !(strings.HasPrefix(e, "WS:strconv.FormatFloat(") || strings.HasPrefix(e, "W:strconv.AppendFloat(")) {
				continue
			}
			// quoted?
			prevQ, nextQ := false, false
			for j := i - 1; j >= 0; j-- {
				if strings.HasPrefix(run.Events[j], "fact:") {
					continue
				}
				prevQ = run.Events[j] == `WB:"\""`
				break
			}
			for j := i + 1; j < len(run.Events); j++ {
				if strings.HasPrefix(run.Events[j], "fact:") {
					continue
				}
				nextQ = run.Events[j] == `WB:"\""`
				break
			}
			if prevQ && nextQ {
				continue
			}
			notNaN := facts["nan"] == "false"
			notInf := facts["inf"] == "false" || (facts["pinf"] == "false" && facts["ninf"] == "false")
			if !(notNaN && notInf) {
				var miss []string
				if !notNaN {
					miss = append(miss, "NaN")
				}
				if !notInf {
					miss = append(miss, "±Inf")
				}
				bad = append(bad, fmt.Sprintf("unquoted strconv.FormatFloat reachable with %s (facts on path: %v)", strings.Join(miss, ", "), facts))
			}
		}
	}
	r.Count("paths_enumerated", nPaths)
	if len(bad) > 0 {
		r.Fail(key, c.pos(m.Pos()), "%s — the output would contain the bare token NaN/+Inf/-Inf, which is not JSON", strings.Join(firstN(uniq(bad), 2), "; "))
	} else {
		r.OK(key, "%d path(s): the unquoted float token is written only under ¬NaN ∧ ¬±Inf; non-finite values are written as quoted strings", nPaths)
	}
}

// ---------------------------------------------------------------------------
// C07.numbers

func (c *Ctx) checkNumbers(r *Report, ro *Roles) {
	n := 0
	for _, e := range ro.Encoders {
		for _, mname := range encoderMethods {
			m := c.declaredMethod(e, mname)
			if m == nil {
				continue
			}
			eachInstr(m, func(in ssa.Instruction) {
				call, ok := in.(*ssa.Call)
				if !ok {
					return
				}
				f := call.Common().StaticCallee()
				if f == nil || f.Object() == nil || f.Object().Pkg() == nil || f.Object().Pkg().Path() != "strconv" {
					return
				}
				key := fmt.Sprintf("C07.numbers:%s→%s", fname(m), f.Name())
				n++
				args := call.Call.Args
				switch f.Name() {
				case "FormatInt", "FormatUint", "AppendInt", "AppendUint":
					base, ok := constInt(args[len(args)-1])
					if !ok || base != 10 {
						r.Fail(key, c.instrPos(in), "integer formatted with base %v, JSON requires base 10", base)
					} else {
						r.OK(key, "base 10")
					}
				case "FormatFloat", "AppendFloat":
					a := args[len(args)-3:]
					fm, _ := constInt(a[0])
					prec, ok1 := constInt(a[1])
					bits, ok2 := constInt(a[2])
					switch {
					case !ok1 || !ok2:
						r.Undecided(key, c.instrPos(in), "non-constant float format arguments")
					case bits != 64:
						r.Fail(key, c.instrPos(in), "float formatted with bitSize %d: float64 values are rounded to float32 precision", bits)
					case !(prec == -1 || (prec >= 17 && (fm == 'g' || fm == 'e' || fm == 'G' || fm == 'E'))):
						r.Fail(key, c.instrPos(in), "float formatted with precision %d (format %q): finite floats do not round-trip bit-exactly", prec, rune(fm))
					case !strings.ContainsRune("fgeGE", rune(fm)):
						r.Fail(key, c.instrPos(in), "float format %q is not a JSON number format", rune(fm))
					default:
						r.OK(key, "format %q, precision %d, bitSize 64 (shortest round-trip)", rune(fm), prec)
					}
				case "FormatBool", "AppendBool", "Itoa", "Quote", "AppendQuote":
					r.OK(key, "constant-free formatter")
				default:
					r.OK(key, "strconv.%s", f.Name())
				}
			})
		}
	}
	r.Floor("strconv formatter call sites in the encoders", n, 8)
}

// ---------------------------------------------------------------------------
// C07.sanitised / reflect-error

func (c *Ctx) checkSanitised(r *Report, ro *Roles, mainEsc *ssa.Function) {
	nW := 0
	for _, e := range ro.Encoders {
		// the interface methods plus every unexported method of the encoder type (helpers extracted from them)
		var ms []*ssa.Function
		seenM := map[*ssa.Function]bool{}
		for _, mname := range encoderMethods {
			if m := c.declaredMethod(e, mname); m != nil && !seenM[m] {
				seenM[m] = true
				ms = append(ms, m)
			}
		}
		for _, f := range c.Funcs {
			if recvNamed(f) == e && f.Parent() == nil && f.Object() != nil && !f.Object().Exported() && !seenM[f] && f.Synthetic == "" {
				seenM[f] = true
				ms = append(ms, f)
			}
		}
		for _, m := range ms {
			var bad []string
			cnt := 0
			eachInstr(m, func(in ssa.Instruction) {
				ci, ok := in.(ssa.CallInstruction)
				if !ok {
					return
				}
				kind, _, arg, ok := bufWrite(ci)
				if !ok {
					return
				}
				cnt++
				nW++
				if k, isK := constOf(arg); isK {
					if k.Kind() == constant.String {
						for _, ch := range []byte(constant.StringVal(k)) {
							if ch < 0x20 {
								bad = append(bad, fmt.Sprintf("constant with control byte 0x%02x at %s", ch, c.instrPos(in)))
							}
						}
					} else if n, _ := constant.Int64Val(k); n < 0x20 {
						bad = append(bad, fmt.Sprintf("constant control byte 0x%02x at %s", n, c.instrPos(in)))
					}
					return
				}
				p := c.prov(arg, &Frame{Fn: m}).eff()
				switch {
				case p.Kind == "call" && strings.HasPrefix(p.Name, "strconv.Format"):
				case p.Kind == "extract" && p.Name == "#0" && p.Args[0].eff().isCall("json.Marshal"):
					// must be on the err == nil path
					okG := false
					for _, g := range guardsOfInstr(in) {
						if isErrNilTest(g) {
							okG = true
						}
					}
					if !okG {
						bad = append(bad, "json.Marshal result written without err == nil guard at "+c.instrPos(in))
					}
				case p.Kind == "path" && strings.HasSuffix(p.Name, ".separator"):
					// configured separator of the text encoder (constructor argument, constant at the only call site)
				default:
					bad = append(bad, fmt.Sprintf("%s of unsanitised %s at %s", kind, p, c.instrPos(in)))
				}
			})
			if cnt == 0 {
				continue
			}
			key := "C07.sanitised:" + fname(m)
			if len(bad) > 0 {
				r.Fail(key, c.pos(m.Pos()), "%s", strings.Join(bad, "; "))
			} else {
				r.OK(key, "%d buffer write(s): constants without control bytes, strconv results or guarded json.Marshal output", cnt)
			}
		}
		// reflect error path
		if m := c.declaredMethod(e, "AppendReflect"); m != nil {
			key := "C07.reflect-error:" + fname(m)
			var errWrites, total int
			eachInstr(m, func(in ssa.Instruction) {
				ci, ok := in.(ssa.CallInstruction)
				if !ok || ci.Common().StaticCallee() != mainEsc || mainEsc == nil {
					return
				}
				total++
				p := c.prov(ci.Common().Args[1], &Frame{Fn: m}).eff()
				onErr := false
				for _, g := range guardsOfInstr(in) {
					if isErrNonNilTest(g) {
						onErr = true
					}
				}
				if onErr && p.Kind == "call" && p.Name == "invoke:Error" {
					errWrites++
				}
			})
			marshal := false
			eachInstr(m, func(in ssa.Instruction) {
				if call, ok := in.(*ssa.Call); ok && calleeIs(call, "encoding/json", "", "Marshal") {
					marshal = true
				}
			})
			if !marshal {
				continue // delegates entirely
			}
			if errWrites == 1 {
				r.OK(key, "marshal failure → escaper(err.Error()) on the err != nil path")
			} else {
				r.Fail(key, c.pos(m.Pos()), "marshal failure is not written through the escaper (found %d escaped error writes)", errWrites)
			}
		}
	}
	r.Floor("buffer writes in the encoders", nW, 16)
}

// ---------------------------------------------------------------------------
// C07.dispatch

func typeFamily(t types.Type) string {
	switch u := t.(type) {
	case *types.Pointer:
		f := typeFamily(u.Elem())
		if f == "" || strings.Contains(f, "/") {
			return ""
		}
		return f + "/ptr"
	case *types.Slice:
		f := typeFamily(u.Elem())
		if f == "" || strings.Contains(f, "/") {
			return ""
		}
		return f + "/slice"
	case *types.TypeParam:
		// all terms of the constraint's type set must agree
		iface, ok := u.Constraint().Underlying().(*types.Interface)
		if !ok {
			return ""
		}
		fam := ""
		for i := 0; i < iface.NumEmbeddeds(); i++ {
			if un, ok := iface.EmbeddedType(i).(*types.Union); ok {
				for j := 0; j < un.Len(); j++ {
					f := typeFamily(un.Term(j).Type())
					if fam == "" {
						fam = f
					} else if f != fam {
						return ""
					}
				}
			}
		}
		return fam
	}
	b, ok := t.Underlying().(*types.Basic)
	if !ok {
		return ""
	}
	switch {
	case b.Info()&types.IsBoolean != 0:
		return "bool"
	case b.Info()&types.IsUnsigned != 0:
		return "unsigned"
	case b.Info()&types.IsInteger != 0:
		return "signed"
	case b.Info()&types.IsFloat != 0:
		return "float"
	case b.Info()&types.IsString != 0:
		return "string"
	}
	return ""
}

func (c *Ctx) checkDispatch(r *Report, ro *Roles) {
	fieldT := c.logType("Field")
	vtT := c.logType("ValueType")
	encI := c.logIface("Encoder")
	if fieldT == nil || vtT == nil || encI == nil {
		r.Undecided("C07.dispatch:anchor", "", "Field/ValueType/Encoder not found")
		return
	}
	var vts []*ssa.NamedConst
	for _, m := range c.LogS.Members {
		if nc, ok := m.(*ssa.NamedConst); ok && types.Identical(nc.Type(), vtT) {
			vts = append(vts, nc)
		}
	}
	sort.Slice(vts, func(i, j int) bool {
		a, _ := constant.Int64Val(vts[i].Value.Value)
		b, _ := constant.Int64Val(vts[j].Value.Value)
		return a < b
	})
	r.Floor("ValueType constants", len(vts), 9)
	encode := c.method(fieldT, "Encode")
	if encode == nil {
		r.Undecided("C07.dispatch:Field.Encode", "", "Field.Encode not found")
		return
	}
	r.SawFunc(encode)
	// per ValueType: events of Encode
	family := map[string]string{} // ValueType name -> family consumed
	encArg := map[string]string{}
	for _, vt := range vts {
		key := "C07.dispatch:Field.Encode#" + vt.Name()
		runs, trunc := c.runEnc(encode, encOpts{
			cells: map[string]constant.Value{"TYPE": vt.Value.Value},
			cellName: func(c *Ctx, addr ssa.Value, fr *Frame) (string, bool) {
				if fa, ok := addr.(*ssa.FieldAddr); ok && fieldName(fa) == "Type" && fr != nil && fr.Parent == nil {
					return "TYPE", true
				}
				return "", false
			},
		}, r)
		if len(trunc) > 0 {
			r.Undecided(key, c.pos(encode.Pos()), "truncated: %v", trunc)
			continue
		}
		// union of events over runs (loops in FromMap give several)
		var evs []string
		longest := 0
		for _, run := range runs {
			if len(run.Events) >= longest {
				longest = len(run.Events)
				evs = run.Events
			}
		}
		if len(evs) == 0 {
			r.Fail(key, c.pos(encode.Pos()), "Encode emits nothing for %s: a field of this type disappears from the record", vt.Name())
			continue
		}
		desc := strings.Join(evs, " ")
		// classify
		var appendM, arg string
		for _, e := range evs {
			if i := strings.Index(e, ".Append"); strings.HasPrefix(e, "invoke:") && i > 0 {
				nm := e[i+1 : strings.Index(e[i:], "(")+i]
				if nm != "AppendKey" {
					appendM = nm
					arg = e[strings.Index(e[i:], "(")+i+1 : len(e)-1]
				}
			}
		}
		firstKey := strings.HasPrefix(evs[0], "invoke:") && strings.Contains(evs[0], ".AppendKey(") && strings.Contains(evs[0], ".Key")
		switch {
		case strings.Contains(desc, "EncodeArray("):
			want := []string{"AppendKey", "AppendArrayBegin", "EncodeArray", "AppendArrayEnd"}
			if !seqContains(evs, want) {
				r.Fail(key, c.pos(encode.Pos()), "array encoding sequence is [%s], want key, array-begin, elements, array-end", desc)
			} else {
				r.OK(key, "key, [, EncodeArray, ]")
			}
		case strings.Contains(desc, "call:EncodeFields("):
			want := []string{"AppendKey", "AppendObjectBegin", "EncodeFields", "AppendObjectEnd"}
			if !seqContains(evs, want) {
				r.Fail(key, c.pos(encode.Pos()), "object encoding sequence is [%s], want key, object-begin, fields, object-end", desc)
			} else {
				r.OK(key, "key, {, EncodeFields, }")
			}
		case strings.Contains(desc, "call:Any("):
			if strings.Contains(desc, "MapKeys") || true {
				sorted := false
				eachInstr(encode, func(in ssa.Instruction) {
					if call, ok := in.(*ssa.Call); ok {
						if f := call.Common().StaticCallee(); f != nil && strings.Contains(qualName(f), "ordered.MapKeys") {
							sorted = true
						}
						if f := call.Common().StaticCallee(); f != nil && (strings.Contains(qualName(f), "slices.Sort") || strings.Contains(qualName(f), "sort.Strings")) {
							sorted = true
						}
					}
				})
				if sorted {
					r.OK(key, "map-sourced fields expanded through Any in sorted key order")
				} else {
					r.Fail(key, c.pos(encode.Pos()), "map-sourced fields are not emitted in sorted key order")
				}
			}
		case appendM != "" && firstKey:
			// scalar
			m := lookupIfaceMethod(encI, appendM)
			if m == nil {
				r.Undecided(key, c.pos(encode.Pos()), "unknown encoder method %s", appendM)
				continue
			}
			pt := m.Type().(*types.Signature).Params().At(0).Type()
			fam := typeFamily(pt)
			if _, isI := pt.Underlying().(*types.Interface); isI {
				fam = "reflect"
			}
			family[vt.Name()] = fam
			encArg[vt.Name()] = arg
			r.OK(key, "key then %s(%s) [family %s]", appendM, arg, fam)
		default:
			r.Fail(key, c.pos(encode.Pos()), "unrecognised encoding sequence [%s] (every field must emit its key first)", desc)
		}
	}
	// constructors: functions returning Field that store a constant Type
	type ctor struct {
		fn  *ssa.Function
		vt  string
		fam string
		num []string
		any string
	}
	var ctors []ctor
	for _, f := range c.Funcs {
		if f.Pkg != c.LogS && (f.Origin() == nil || f.Origin().Pkg != c.LogS) {
			continue
		}
		if f.Signature.Recv() != nil || f.Signature.Results().Len() != 1 || !types.Identical(f.Signature.Results().At(0).Type(), fieldT) {
			continue
		}
		if f.TypeParams().Len() > 0 && len(f.TypeArgs()) == 0 {
			continue // uninstantiated generic body
		}
		ct := ctor{fn: f}
		fr := &Frame{Fn: f}
		eachInstr(f, func(in ssa.Instruction) {
			st, ok := in.(*ssa.Store)
			if !ok {
				return
			}
			fa, ok := st.Addr.(*ssa.FieldAddr)
			if !ok {
				return
			}
			if _, isAlloc := fa.X.(*ssa.Alloc); !isAlloc {
				return
			}
			switch fieldName(fa) {
			case "Type":
				if k, ok := constOf(st.Val); ok {
					for _, vt := range vts {
						if constant.Compare(vt.Value.Value, token.EQL, k) {
							ct.vt = vt.Name()
						}
					}
				}
			case "Num":
				ct.num = append(ct.num, provShort(c.prov(st.Val, fr)))
			case "Any":
				ct.any = provShort(c.prov(st.Val, fr))
			}
		})
		if ct.vt == "" || len(f.Params) < 2 {
			continue
		}
		ct.fam = typeFamily(f.Params[1].Type())
		ctors = append(ctors, ct)
	}
	nScalar := 0
	for _, ct := range ctors {
		want, isScalar := family[ct.vt]
		if !isScalar || want == "reflect" {
			continue
		}
		nScalar++
		r.SawFunc(ct.fn)
		key := "C07.dispatch:" + fname(ct.fn)
		if ct.fam != want {
			r.Fail(key, c.pos(ct.fn.Pos()), "constructor for %s values stores %s, which Encode feeds to an Append method for %s values", ct.fam, ct.vt, want)
			continue
		}
		// representation pairs
		ea := encArg[ct.vt]
		// canonical parameter name in the patterns below
		for i := range ct.num {
			ct.num[i] = strings.ReplaceAll(ct.num[i], "param:"+ct.fn.Params[1].Name(), "param:val")
		}
		ct.any = strings.ReplaceAll(ct.any, "param:"+ct.fn.Params[1].Name(), "param:val")
		okPair := false
		why := ""
		sort.Strings(ct.num)
		nums := strings.Join(ct.num, " | ")
		switch want {
		case "signed":
			okPair = strings.HasPrefix(ea, "convert:int64(") && strings.Contains(ea, ".Num") && len(ct.num) == 1 && (ct.num[0] == "convert:uint64(param:val)")
		case "unsigned":
			okPair = strings.HasSuffix(ea, ".Num") && !strings.Contains(ea, "(") && len(ct.num) == 1 && (ct.num[0] == "convert:uint64(param:val)" || ct.num[0] == "param:val")
		case "float":
			okPair = strings.HasPrefix(ea, "math.Float64frombits(") && strings.Contains(ea, ".Num") && len(ct.num) == 1 &&
				(ct.num[0] == "math.Float64bits(convert:float64(param:val))" || ct.num[0] == "math.Float64bits(param:val)")
		case "bool":
			okPair = strings.HasPrefix(ea, "binop:!=(") && strings.Contains(ea, ".Num") && strings.HasSuffix(ea, ", 0)") && nums == "0 | 1"
			if okPair {
				// Num=1 must be stored on the val==true edge
				eachInstr(ct.fn, func(in ssa.Instruction) {
					st, ok := in.(*ssa.Store)
					if !ok {
						return
					}
					fa, ok := st.Addr.(*ssa.FieldAddr)
					if !ok || fieldName(fa) != "Num" {
						return
					}
					k, _ := constInt(st.Val)
					for _, g := range guardsOfInstr(in) {
						if g.Cond == ct.fn.Params[1] && g.Polarity != (k == 1) {
							okPair = false
							why = "Num=1 is stored for false"
						}
					}
				})
			}
		case "string":
			okPair = strings.HasPrefix(ea, "builtin:String(") && strings.Contains(ea, ".Any") && strings.Contains(ea, ".Num") &&
				len(ct.num) == 1 && ct.num[0] == "convert:uint64(builtin:len(param:val))" && ct.any == "builtin:StringData(param:val)"
		}
		if okPair {
			r.OK(key, "%s → %s; stores %s, Encode reads %s (inverse pair)", ct.fam, ct.vt, nums, ea)
		} else {
			r.Fail(key, c.pos(ct.fn.Pos()), "representation mismatch for %s: constructor stores Num=[%s] Any=[%s], Encode passes %s %s", ct.vt, nums, ct.any, ea, why)
		}
	}
	r.Floor("scalar field constructors (instances)", nScalar, 5)
	// pointer constructors: nil → Nil(key), else scalar constructor of the same family with *val
	for _, f := range c.Funcs {
		if f.Signature.Recv() != nil || f.Signature.Results().Len() != 1 || !types.Identical(f.Signature.Results().At(0).Type(), fieldT) || len(f.Params) != 2 {
			continue
		}
		if f.TypeParams().Len() > 0 && len(f.TypeArgs()) == 0 {
			continue
		}
		pt, ok := f.Params[1].Type().(*types.Pointer)
		if !ok || typeFamily(pt.Elem()) == "" {
			continue
		}
		key := "C07.dispatch:" + fname(f)
		r.SawFunc(f)
		var nilRet, valRet string
		eachInstr(f, func(in ssa.Instruction) {
			ret, ok := in.(*ssa.Return)
			if !ok {
				return
			}
			call, ok := ret.Results[0].(*ssa.Call)
			if !ok {
				return
			}
			cal := call.Common().StaticCallee()
			isNilEdge := false
			for _, g := range guardsOfInstr(in) {
				if b, ok := g.Cond.(*ssa.BinOp); ok && (b.X == f.Params[1] || b.Y == f.Params[1]) {
					isNilEdge = (b.Op == token.EQL) == g.Polarity
				}
			}
			if isNilEdge {
				nilRet = fname(cal)
			} else {
				fam := ""
				if cal != nil && len(cal.Params) == 2 {
					fam = typeFamily(cal.Params[1].Type())
				}
				deref := false
				if ld, ok := call.Call.Args[1].(*ssa.UnOp); ok && ld.Op == token.MUL && ld.X == f.Params[1] {
					deref = true
				}
				valRet = fmt.Sprintf("%s/%v", fam, deref)
			}
		})
		if nilRet == "Nil" && valRet == typeFamily(pt.Elem())+"/true" {
			r.OK(key, "nil → Nil(key); otherwise the %s constructor with *val", typeFamily(pt.Elem()))
		} else {
			r.Fail(key, c.pos(f.Pos()), "pointer constructor: nil branch returns %q, value branch uses %s (want Nil and %s/true)", nilRet, valRet, typeFamily(pt.Elem()))
		}
	}
	// slice element encoders: EncodeArray of the module's slice types feeds each element to the Append method of its family
	arrI := c.logIface("ArrayValue")
	nArr := 0
	for _, f := range c.Funcs {
		if f.Name() != "EncodeArray" || f.Signature.Recv() == nil {
			continue
		}
		rt := f.Signature.Recv().Type()
		sl, ok := rt.Underlying().(*types.Slice)
		if !ok || arrI == nil {
			continue
		}
		if _, isTP := sl.Elem().(*types.TypeParam); isTP {
			continue
		}
		nArr++
		r.SawFunc(f)
		key := "C07.dispatch:" + fname(f)
		fam := typeFamily(sl.Elem())
		var got []string
		eachInstr(f, func(in ssa.Instruction) {
			if ci, ok := in.(ssa.CallInstruction); ok && ci.Common().IsInvoke() {
				m := ci.Common().Method
				pf := ""
				if ps := m.Type().(*types.Signature).Params(); ps.Len() > 0 {
					pf = typeFamily(ps.At(0).Type())
				}
				got = append(got, m.Name()+":"+pf)
			}
		})
		if len(got) == 1 && strings.HasSuffix(got[0], ":"+fam) {
			r.OK(key, "each %s element → %s", fam, strings.Split(got[0], ":")[0])
		} else {
			r.Fail(key, c.pos(f.Pos()), "elements of family %s are encoded with %v", fam, got)
		}
	}
	r.Floor("slice element encoders", nArr, 5)
}

func lookupIfaceMethod(i *types.Interface, name string) *types.Func {
	for k := 0; k < i.NumMethods(); k++ {
		if i.Method(k).Name() == name {
			return i.Method(k)
		}
	}
	return nil
}

// seqContains: the event list contains the wanted method names in order.
func seqContains(evs []string, want []string) bool {
	i := 0
	for _, e := range evs {
		if i < len(want) && (strings.Contains(e, "."+want[i]+"(") || strings.Contains(e, ":"+want[i]+"(")) {
			i++
		}
	}
	return i == len(want)
}

// checkAnySwitch: AST rule over Any's type switch.
func (c *Ctx) checkAnySwitch(r *Report) {
	fd := c.funcDecl(c.Log, "", "Any")
	if fd == nil {
		r.Undecided("C07.dispatch:Any", "", "func Any not found")
		return
	}
	var ts *ast.TypeSwitchStmt
	ast.Inspect(fd.Body, func(n ast.Node) bool {
		if t, ok := n.(*ast.TypeSwitchStmt); ok && ts == nil {
			ts = t
		}
		return true
	})
	if ts == nil {
		r.Undecided("C07.dispatch:Any", c.pos(fd.Pos()), "Any is not a type switch")
		return
	}
	info := c.Log.TypesInfo
	nCases := 0
	var bad []string
	seen := map[string]bool{}
	for _, cl := range ts.Body.List {
		cc := cl.(*ast.CaseClause)
		if cc.List == nil {
			continue // default → Reflect
		}
		for _, te := range cc.List {
			tv := info.Types[te]
			if tv.IsNil() {
				continue
			}
			nCases++
			fam := typeFamily(tv.Type)
			seen[types.TypeString(tv.Type, nil)] = true
			if fam == "" {
				continue
			}
			if len(cc.List) != 1 {
				bad = append(bad, fmt.Sprintf("case %s shares a clause with other types", types.TypeString(tv.Type, nil)))
				continue
			}
			// body: return Ctor(key, val)
			if len(cc.Body) != 1 {
				bad = append(bad, fmt.Sprintf("case %s: body is not a single return", types.TypeString(tv.Type, nil)))
				continue
			}
			ret, ok := cc.Body[0].(*ast.ReturnStmt)
			if !ok || len(ret.Results) != 1 {
				bad = append(bad, fmt.Sprintf("case %s: body is not a single return", types.TypeString(tv.Type, nil)))
				continue
			}
			call, ok := ret.Results[0].(*ast.CallExpr)
			if !ok || len(call.Args) != 2 {
				bad = append(bad, fmt.Sprintf("case %s: does not return a constructor call", types.TypeString(tv.Type, nil)))
				continue
			}
			// argument must be the switch variable itself, unconverted
			if id, ok := call.Args[1].(*ast.Ident); !ok || info.Uses[id] == nil || info.Uses[id] != info.Implicits[cc] {
				bad = append(bad, fmt.Sprintf("case %s: value is converted or replaced before construction (%s)", types.TypeString(tv.Type, nil), types.ExprString(call.Args[1])))
				continue
			}
			// callee's parameter family (generic: from the constraint)
			var fn *types.Func
			switch f := call.Fun.(type) {
			case *ast.Ident:
				fn, _ = info.Uses[f].(*types.Func)
			case *ast.IndexExpr:
				if id, ok := f.X.(*ast.Ident); ok {
					fn, _ = info.Uses[id].(*types.Func)
				}
			}
			if fn == nil {
				bad = append(bad, fmt.Sprintf("case %s: constructor not resolved", types.TypeString(tv.Type, nil)))
				continue
			}
			sig := fn.Type().(*types.Signature)
			pf := typeFamily(sig.Params().At(1).Type())
			if pf != fam {
				bad = append(bad, fmt.Sprintf("case %s (%s) is built with %s, a constructor for %s", types.TypeString(tv.Type, nil), fam, fn.Name(), pf))
			}
		}
	}
	r.Count("any_cases", nCases)
	// every basic kind × {value, pointer, slice} should be dispatched (missing ones fall back to reflection: allowed but listed)
	if len(bad) > 0 {
		r.Fail("C07.dispatch:Any", c.pos(fd.Pos()), "%s", strings.Join(firstN(bad, 4), "; "))
	} else {
		r.OK("C07.dispatch:Any", "%d case types, each built by the constructor of its own kind family from the unconverted value", nCases)
	}
	r.Floor("Any case types", nCases, 42)
}

// ---------------------------------------------------------------------------
// C07.order

// layoutEvents runs a layout's ToBytes and returns its event sequences.
func (c *Ctx) layoutEvents(m *ssa.Function, r *Report) ([][]string, []string) {
	ctxS := "param:" + m.Params[1].Name() + ".CtxString"
	runs, trunc := c.runEnc(m, encOpts{
		// unexported helpers that work on the output buffer are part of the layout (code extracted from ToBytes)
		inline: func(callee *ssa.Function) bool {
			if callee.Object() == nil || callee.Object().Exported() {
				return false
			}
			for _, p := range callee.Params {
				if isBytesBufferPtr(p.Type()) {
					return true
				}
			}
			return false
		},
		branch: func(s *TSCtx, iff *ssa.If, taken bool) string {
			p := c.prov(iff.Cond, s.Frame)
			if b, ok := iff.Cond.(*ssa.BinOp); ok {
				x := c.prov(b.X, s.Frame).String()
				y, isS := constString(b.Y)
				if x == ctxS && isS && y == "" {
					has := (b.Op == token.NEQ) == taken
					return fmt.Sprintf("ctx=%v", has)
				}
			}
			_ = p
			return ""
		},
		callEv: func(s *TSCtx, ci ssa.CallInstruction) (string, bool) {
			f := ci.Common().StaticCallee()
			if f == nil {
				if ci.Common().IsInvoke() {
					return "", false
				}
				return "", false
			}
			if b, ok := ci.Common().Value.(*ssa.Builtin); ok {
				_ = b
				return "", true
			}
			if c.inModule(f) {
				// field constructors with constant key
				if f.Signature.Results().Len() == 1 && f.Signature.Recv() == nil {
					if n, ok := f.Signature.Results().At(0).Type().(*types.Named); ok && n.Obj().Name() == "Field" && len(ci.Common().Args) == 2 {
						if k, ok := constString(ci.Common().Args[0]); ok {
							return fmt.Sprintf("field:%s=%s", k, provShort(c.prov(ci.Common().Args[1], s.Frame))), true
						}
					}
				}
				if f.Name() == "EncodeFields" {
					return "fields:" + c.prov(ci.Common().Args[1], s.Frame).String(), true
				}
			}
			return "", false
		},
	}, r)
	var out [][]string
	for _, run := range runs {
		out = append(out, run.Events)
	}
	return out, trunc
}

func (c *Ctx) checkJSONLayoutOrder(r *Report, ro *Roles) {
	jt, _, _ := c.jsonEncoderType(ro)
	// the JSON layout is the layout whose ToBytes constructs the JSON encoder
	for _, lt := range ro.Layouts {
		m := c.declaredMethod(lt, "ToBytes")
		if m == nil {
			continue
		}
		usesJSON, usesOther := false, false
		eachInstr(m, func(in ssa.Instruction) {
			if call, ok := in.(*ssa.Call); ok {
				if f := call.Common().StaticCallee(); f != nil && c.inModule(f) && f.Signature.Results().Len() == 1 {
					if p, ok := f.Signature.Results().At(0).Type().(*types.Pointer); ok {
						if p.Elem() == types.Type(jt) {
							usesJSON = true
						} else if n, ok := p.Elem().(*types.Named); ok && types.Implements(types.NewPointer(n), c.logIface("Encoder")) {
							usesOther = true
						}
					}
				}
			}
		})
		if !usesJSON || usesOther {
			continue
		}
		r.SawFunc(m)
		key := "C07.order:" + fname(m)
		seqs, trunc := c.layoutEvents(m, r)
		if len(trunc) > 0 {
			r.Undecided(key, c.pos(m.Pos()), "truncated: %v", trunc)
			continue
		}
		e := "param:" + m.Params[1].Name()
		recv := "param:" + m.Params[0].Name()
		head := []string{
			"field:level=strings.ToLower((Level).Name(" + e + ".Level))",
			"field:time=(time.Time).Format(" + e + ".Time, \"" + specTimeLayout + "\")",
			"field:fileLine=(*BaseLayout).GetFileLine(&" + recv + ".BaseLayout, " + e + ")",
			"field:tag=" + e + ".Tag",
		}
		_ = head
		var bad []string
		okPaths := 0
		for _, evs := range seqs {
			var keys []string
			var rest []string
			ctx := ""
			for _, ev := range evs {
				switch {
				case strings.HasPrefix(ev, "field:"):
					keys = append(keys, ev[len("field:"):strings.Index(ev, "=")])
					// value checks
					kv := strings.SplitN(ev[len("field:"):], "=", 2)
					want := map[string]string{"tag": e + ".Tag", "ctxString": e + ".CtxString"}
					if w, ok := want[kv[0]]; ok && kv[1] != w {
						bad = append(bad, fmt.Sprintf("member %s carries %s, want %s", kv[0], kv[1], w))
					}
					if kv[0] == "time" && !strings.Contains(kv[1], `"`+specTimeLayout+`"`) {
						bad = append(bad, "time member is not formatted with "+specTimeLayout+": "+kv[1])
					}
					if kv[0] == "time" && !strings.Contains(kv[1], e+".Time") {
						bad = append(bad, "time member is not the event's time: "+kv[1])
					}
					if kv[0] == "level" && !(strings.Contains(kv[1], "strings.ToLower") && strings.Contains(kv[1], e+".Level")) {
						bad = append(bad, "level member is not the lower-cased level name: "+kv[1])
					}
					if kv[0] == "fileLine" && !strings.Contains(kv[1], "GetFileLine") {
						bad = append(bad, "fileLine member does not come from GetFileLine: "+kv[1])
					}
				case strings.HasPrefix(ev, "ctx="):
					ctx = ev
				case strings.HasPrefix(ev, "fields:"):
					f := strings.TrimPrefix(ev, "fields:")
					if strings.HasPrefix(f, e+".") {
						rest = append(rest, strings.TrimPrefix(f, e+"."))
					} else {
						rest = append(rest, "headers")
					}
				case strings.Contains(ev, "AppendEncoderBegin"):
					rest = append(rest, "begin")
				case strings.Contains(ev, "AppendEncoderEnd"):
					rest = append(rest, "end")
				case ev == `WB:"\n"`:
					rest = append(rest, "newline")
				case strings.HasPrefix(ev, "W"):
					rest = append(rest, "write:"+ev)
				}
			}
			wantKeys := "level time fileLine tag"
			if ctx == "ctx=true" {
				wantKeys += " ctxString"
			}
			if ctx == "" {
				bad = append(bad, "ctxString is not emitted conditionally on being non-empty")
			}
			if strings.Join(keys, " ") != wantKeys {
				bad = append(bad, fmt.Sprintf("header keys [%s] with %s, want [%s]", strings.Join(keys, " "), ctx, wantKeys))
			}
			if strings.Join(rest, " ") != "begin headers CtxFields Fields end newline" {
				bad = append(bad, fmt.Sprintf("body sequence [%s], want [begin headers CtxFields Fields end newline]", strings.Join(rest, " ")))
			}
			okPaths++
		}
		r.Count("paths_enumerated", len(seqs))
		if len(bad) > 0 {
			r.Fail(key, c.pos(m.Pos()), "%s", strings.Join(firstN(uniq(bad), 4), "; "))
		} else if okPaths < 2 {
			r.Fail(key, c.pos(m.Pos()), "expected two paths (with/without ctxString), found %d", okPaths)
		} else {
			r.OK(key, "%d paths: level,time,fileLine,tag,[ctxString] → {headers, CtxFields, Fields} → newline", okPaths)
		}
	}
}

func uniq(s []string) []string {
	seen := map[string]bool{}
	var out []string
	for _, x := range s {
		if !seen[x] {
			seen[x] = true
			out = append(out, x)
		}
	}
	return out
}

// ---------------------------------------------------------------------------
// C08

func checkC08(c *Ctx, r *Report) {
	r.Explanation = "decided: the text layout writes '[', LEVEL, '][', time in layout 2006-01-02T15:04:05.000 (the same constant as the JSON layout), '][', GetFileLine, '] ', tag, '||', then ctxString+'||' iff non-empty, then context fields, call fields and one newline; every key/value method of the text encoder delegates to the same-named method of the embedded JSON encoder with the same argument and returns when the nesting depth is > 0, Begin/End adjust the depth and reset the JSON encoder at depth 0; at depth 0 each scalar uses the same strconv formatter and constant arguments as the JSON encoder and strings/keys/marshal errors go through the same escaper; the separator is written iff something was written before; every slice on the hot path whose bounds depend on a configuration integer is proved in range for all values of that integer (Fourier–Motzkin). Not decided: equality of whole output lines for all inputs."
	r.Undecidedcl = []string{"byte-for-byte equality of text tokens with JSON tokens beyond formatter/escaper agreement"}
	r.Assumptions = []string{"strconv and encoding/json contracts", "integer arithmetic on lengths does not overflow"}
	ro := c.roles(r)
	{
		jok, tok := c.checkLayoutSemantics(r, ro, "C08.layout-values")
		layoutDecisions(r, jok, tok)
	}
	jt, lastF, toks := c.jsonEncoderType(ro)
	var tt *types.Named
	for _, e := range ro.Encoders {
		if e != jt {
			tt = e
		}
	}
	if jt == nil || tt == nil {
		r.Undecided("C08.anchor:encoders", "", "JSON/text encoder pair not found")
		return
	}
	_, mainEsc, _, _ := c.escaperFuncs(ro)
	// fields of the text encoder by role
	var depthF, writtenF, jsonF *types.Var
	st := tt.Underlying().(*types.Struct)
	for i := 0; i < st.NumFields(); i++ {
		f := st.Field(i)
		if p, ok := f.Type().(*types.Pointer); ok && p.Elem() == types.Type(jt) {
			jsonF = f
		}
		if b, ok := f.Type().Underlying().(*types.Basic); ok {
			if b.Info()&types.IsInteger != 0 {
				depthF = f
			}
			if b.Info()&types.IsBoolean != 0 {
				writtenF = f
			}
		}
	}
	if depthF == nil || writtenF == nil || jsonF == nil {
		r.Undecided("C08.anchor:text-encoder-fields", c.pos(tt.Obj().Pos()), "depth counter / has-written flag / embedded JSON encoder not identified")
		return
	}
	c.checkTextDelegate(r, jt, tt, depthF, writtenF, jsonF, lastF, toks, mainEsc)
	c.checkTextHeader(r, ro, jt)
	c.checkConfigBounds(r, ro, "C08.width")
	c.checkTruncation(r, ro, "C08.truncate", 3)
	// "no field key or value can introduce a line break or a raw control character" rests on the shared escaper
	sub := newReport("C09", r.Tier)
	checkC09(c, sub)
	sub.applyDecisions()
	nOK := 0
	for _, ob := range sub.Obls {
		if ob.Status == Discharged {
			nOK++
			continue
		}
		o2 := *ob
		o2.Key = "C08.strings/" + ob.Key
		r.add(&o2)
	}
	if nOK == len(sub.Obls) {
		r.OK("C08.strings/escaper", "all %d escaper obligations of C09 hold for the text encoder's keys and string values", nOK)
	}
}

func (c *Ctx) checkTextDelegate(r *Report, jt, tt *types.Named, depthF, writtenF, jsonF, lastF *types.Var, toks []*ssa.NamedConst, mainEsc *ssa.Function) {
	// unexported methods of the text encoder are helpers extracted from its Append* methods
	ownHelper := func(f *ssa.Function) bool {
		return recvNamed(f) == tt && f.Object() != nil && !f.Object().Exported()
	}
	inl := ownHelper
	for _, mname := range []string{"AppendKey", "AppendBool", "AppendInt64", "AppendUint64", "AppendFloat64", "AppendString", "AppendReflect"} {
		m := c.method(tt, mname)
		jm := c.method(jt, mname)
		if m == nil || jm == nil {
			r.Undecided("C08.delegate:"+tt.Obj().Name()+"."+mname, "", "method missing")
			continue
		}
		r.SawFunc(m)
		recv := "param:" + m.Params[0].Name()
		arg := "param:" + m.Params[1].Name()
		depthCell := recv + "." + depthF.Name()
		wrCell := recv + "." + writtenF.Name()
		key := "C08.delegate:" + fname(m)
		var bad []string
		for _, d := range []int64{1, 2, 127} {
			for _, hw := range []bool{false, true} {
				runs, trunc := c.runEnc(m, encOpts{inline: inl, cells: map[string]constant.Value{depthCell: constant.MakeInt64(d), wrCell: constant.MakeBool(hw)}}, r)
				if len(trunc) > 0 {
					bad = append(bad, fmt.Sprintf("truncated %v", trunc))
				}
				want := fmt.Sprintf("call:%s(recv=%s.%s,%s)", fname(jm), recv, jsonF.Name(), arg)
				for _, run := range runs {
					got := strings.Join(run.Events, " ")
					if got != want {
						bad = append(bad, fmt.Sprintf("depth=%d: events [%s], want exactly [%s] then return", d, got, want))
					}
					if v := run.Cells[wrCell]; v == nil || constant.BoolVal(v) != hw {
						bad = append(bad, fmt.Sprintf("depth=%d: has-written flag changed inside a nested structure", d))
					}
				}
			}
		}
		if len(bad) > 0 {
			r.Fail(key, c.pos(m.Pos()), "%s", strings.Join(firstN(uniq(bad), 3), "; "))
		} else {
			r.OK(key, "depth>0 ⇒ exactly %s(%s) on the embedded JSON encoder, then return (depths 1,2,127 × has-written)", mname, arg)
		}
		// depth 0 tokens
		key0 := "C08.tokens:" + fname(m)
		bad = nil
		jruns, _ := c.runEnc(jm, encOpts{inline: func(f *ssa.Function) bool { return f != mainEsc && f.Signature.Recv() != nil }, cells: map[string]constant.Value{"param:" + jm.Params[0].Name() + "." + lastF.Name(): toks[0].Value.Value}}, nil)
		jsonTok := map[string]bool{}
		for _, run := range jruns {
			// strip quotes/colon punctuation and rename the parameter
			var evs []string
			for _, e := range run.Events {
				if e == `WB:"\""` || e == `WB:":"` {
					continue
				}
				evs = append(evs, strings.ReplaceAll(e, "param:"+jm.Params[1].Name(), "ARG"))
			}
			jsonTok[strings.Join(evs, " ")] = true
		}
		for _, hw := range []bool{false, true} {
			runs, _ := c.runEnc(m, encOpts{inline: inl, cells: map[string]constant.Value{depthCell: constant.MakeInt64(0), wrCell: constant.MakeBool(hw)}}, r)
			for _, run := range runs {
				var evs []string
				for _, e := range run.Events {
					evs = append(evs, strings.ReplaceAll(e, arg, "ARG"))
				}
				got := strings.Join(evs, " ")
				if strings.Contains(got, "call:"+fname(jm)) {
					bad = append(bad, "depth 0 still delegates to the JSON encoder (top-level text values would be JSON-quoted and comma-separated)")
					continue
				}
				if mname == "AppendKey" {
					want := fmt.Sprintf("call:%s(ARG) WB:\"=\"", fname(mainEsc))
					if hw {
						want = "WS:" + recv + ".separator " + want
					}
					// separator field name is resolved by type: the only string field
					got2 := got
					if got2 != want {
						// tolerate a differently named separator field
						if hw && strings.HasPrefix(got2, "WS:"+recv+".") && strings.HasSuffix(got2, strings.TrimPrefix(want, "WS:"+recv+".separator")) {
						} else {
							bad = append(bad, fmt.Sprintf("has-written=%v: key events [%s], want [%s]", hw, got2, want))
						}
					}
					if v := run.Cells[wrCell]; v == nil || !constant.BoolVal(v) {
						bad = append(bad, fmt.Sprintf("has-written=%v: flag not set after writing a key", hw))
					}
					continue
				}
				if !jsonTok[got] {
					var js []string
					for k := range jsonTok {
						js = append(js, "["+k+"]")
					}
					sort.Strings(js)
					bad = append(bad, fmt.Sprintf("depth-0 token [%s] differs from the JSON encoder's token %s (quotes aside)", got, strings.Join(js, " or ")))
				}
			}
		}
		if len(bad) > 0 {
			r.Fail(key0, c.pos(m.Pos()), "%s", strings.Join(firstN(uniq(bad), 3), "; "))
		} else if mname == "AppendKey" {
			r.OK(key0, "depth 0: separator iff already written, escaper(key), '='; flag set")
		} else {
			r.OK(key0, "depth 0: same formatter/escaper and constant arguments as %s", fname(jm))
		}
	}
	// Begin / End
	for _, mname := range []string{"AppendObjectBegin", "AppendArrayBegin", "AppendObjectEnd", "AppendArrayEnd"} {
		m := c.method(tt, mname)
		jm := c.method(jt, mname)
		if m == nil || jm == nil {
			continue
		}
		r.SawFunc(m)
		key := "C08.delegate:" + fname(m)
		recv := "param:" + m.Params[0].Name()
		depthCell := recv + "." + depthF.Name()
		lastCell := recv + "." + jsonF.Name() + "." + lastF.Name()
		isBegin := strings.HasSuffix(mname, "Begin")
		var bad []string
		for _, d := range []int64{0, 1, 2, 3} {
			if !isBegin && d == 0 {
				continue
			}
			// inline the JSON encoder's methods so the state reset is visible in the cells
			runs, _ := c.runEnc(m, encOpts{inline: func(f *ssa.Function) bool { return recvNamed(f) == jt || ownHelper(f) }, cells: map[string]constant.Value{depthCell: constant.MakeInt64(d), lastCell: toks[len(toks)-1].Value.Value}}, r)
			for _, run := range runs {
				nd, _ := constant.Int64Val(run.Cells[depthCell])
				wantD := d + 1
				if !isBegin {
					wantD = d - 1
				}
				if run.Cells[depthCell] == nil || nd != wantD {
					bad = append(bad, fmt.Sprintf("depth %d → %v, want %d", d, run.Cells[depthCell], wantD))
				}
				brace := map[string]string{"AppendObjectBegin": "{", "AppendArrayBegin": "[", "AppendObjectEnd": "}", "AppendArrayEnd": "]"}[mname]
				found := false
				for _, e := range run.Events {
					if e == fmt.Sprintf("WB:%q", brace) {
						found = true
					}
				}
				if !found {
					bad = append(bad, fmt.Sprintf("depth %d: %q not written through the JSON encoder (events %v)", d, brace, run.Events))
				}
				if !isBegin {
					lv := tokName(toks, run.Cells[lastCell])
					zero := tokName(toks, constant.MakeInt64(0))
					if wantD == 0 && lv != zero {
						bad = append(bad, fmt.Sprintf("leaving the outermost structure leaves the JSON encoder in state %s, not reset to %s: the next top-level structure starts with a comma", lv, zero))
					}
					if wantD > 0 && lv == zero {
						bad = append(bad, fmt.Sprintf("JSON encoder reset while still nested (depth %d): the next sibling loses its comma", wantD))
					}
				}
			}
		}
		if len(bad) > 0 {
			r.Fail(key, c.pos(m.Pos()), "%s", strings.Join(firstN(uniq(bad), 3), "; "))
		} else if isBegin {
			r.OK(key, "depth+1 then %s on the JSON encoder (depths 0..3)", mname)
		} else {
			r.OK(key, "depth-1, %s on the JSON encoder, JSON state reset exactly when depth reaches 0 (depths 1..3)", mname)
		}
	}
}

func (c *Ctx) checkTextHeader(r *Report, ro *Roles, jt *types.Named) {
	encI := c.logIface("Encoder")
	for _, lt := range ro.Layouts {
		m := c.declaredMethod(lt, "ToBytes")
		if m == nil {
			continue
		}
		// text layout: constructs an encoder other than the JSON one
		uses := false
		eachInstr(m, func(in ssa.Instruction) {
			if call, ok := in.(*ssa.Call); ok {
				if f := call.Common().StaticCallee(); f != nil && c.inModule(f) && f.Signature.Results().Len() == 1 {
					if p, ok := f.Signature.Results().At(0).Type().(*types.Pointer); ok && p.Elem() != types.Type(jt) {
						if n, ok := p.Elem().(*types.Named); ok && types.Implements(types.NewPointer(n), encI) {
							uses = true
						}
					}
				}
			}
		})
		if !uses {
			continue
		}
		r.SawFunc(m)
		key := "C08.header:" + fname(m)
		seqs, trunc := c.layoutEvents(m, r)
		if len(trunc) > 0 {
			r.Undecided(key, c.pos(m.Pos()), "truncated: %v", trunc)
			continue
		}
		e := "param:" + m.Params[1].Name()
		var bad []string
		for _, evs := range seqs {
			var shape []string
			ctx := ""
			for _, ev := range evs {
				switch {
				case strings.HasPrefix(ev, "ctx="):
					ctx = ev
					shape = append(shape, ev)
				case strings.HasPrefix(ev, "WS:") || strings.HasPrefix(ev, "WB:"):
					v := ev[3:]
					switch {
					case strings.Contains(v, "strings.ToUpper") && strings.Contains(v, e+".Level"):
						v = "LEVEL"
					case strings.Contains(v, "(time.Time).Format("+e+".Time, \""+specTimeLayout+"\")"):
						v = "TIME"
					case strings.Contains(v, "GetFileLine"):
						v = "FILELINE"
					case v == e+".Tag":
						v = "TAG"
					case v == e+".CtxString":
						v = "CTX"
					}
					shape = append(shape, v)
				case strings.HasPrefix(ev, "fields:"):
					shape = append(shape, strings.TrimPrefix(strings.TrimPrefix(ev, "fields:"), e+"."))
				case strings.Contains(ev, "AppendEncoderBegin"):
					shape = append(shape, "begin")
				case strings.Contains(ev, "AppendEncoderEnd"):
					shape = append(shape, "end")
				}
			}
			got := strings.Join(shape, " ")
			want := `"[" LEVEL "][" TIME "][" FILELINE "] " TAG "||" ` + ctx
			if ctx == "ctx=true" {
				want += ` CTX "||"`
			}
			want += ` begin CtxFields Fields end "\n"`
			if ctx == "" {
				bad = append(bad, "ctxString is not emitted conditionally on being non-empty")
			}
			if got != want {
				bad = append(bad, fmt.Sprintf("line shape [%s], want [%s]", got, want))
			}
		}
		// the separator handed to the encoder equals the header separator
		sepOK := false
		eachInstr(m, func(in ssa.Instruction) {
			if call, ok := in.(*ssa.Call); ok {
				if f := call.Common().StaticCallee(); f != nil && c.inModule(f) && f.Signature.Recv() == nil && len(call.Call.Args) == 2 {
					if s, ok := constString(call.Call.Args[1]); ok && s == "||" {
						sepOK = true
					}
				}
			}
		})
		if !sepOK {
			bad = append(bad, "the field encoder is not constructed with the separator \"||\"")
		}
		r.Count("paths_enumerated", len(seqs))
		if len(bad) > 0 {
			r.Fail(key, c.pos(m.Pos()), "%s", strings.Join(firstN(uniq(bad), 3), "; "))
		} else if len(seqs) < 2 {
			r.Fail(key, c.pos(m.Pos()), "expected two paths (with/without ctxString), found %d", len(seqs))
		} else {
			r.OK(key, "%d paths: [LEVEL][%s][file:line] tag||[ctx||]fields newline; encoder separator \"||\"", len(seqs), specTimeLayout)
		}
	}
}
