package main

// Asynchronous logger evaluation (P13, scripted schedules): the queueing logger type is evaluated with channels as
// queues and its worker as a task the rule steps. Per policy and layout mode, one producer submits events and raw
// writes while the worker is held (so that the buffer fills and overflows), then the worker drains; Stop is called
// at several buffer occupancies. Where a select has several ready cases the scenario is evaluated once per choice
// policy. Checked against the statement: every submitted item is delivered exactly once or counted as discarded
// exactly once; delivery order is submission order; Discard drops the arriving item, DiscardOldest the oldest queued
// ones, Block none; a producer call returns without waiting except under Block; when Stop returns everything accepted
// before it has been delivered and the worker has finished.

import (
	"fmt"
	"go/types"
	"strings"
)

func (c *Ctx) checkAsyncSemantics(r *Report, ro *Roles, rule string) bool {
	if c.asyncMemo != nil {
		return *c.asyncMemo
	}
	okAll := false
	defer func() { c.asyncMemo = &okAll }()
	T := ro.WorkerOwner
	key := rule + ":async"
	if T == nil {
		r.Inconclusive(key, "no queueing logger type found")
		return false
	}
	key = rule + ":" + T.Obj().Name()
	fw, why := c.newFanWorld(ro)
	if fw == nil {
		r.Inconclusive(key, "%s", why)
		return false
	}
	// policy constants: the values of the named integer type of the policy field
	st := T.Underlying().(*types.Struct)
	var polField, sizeField = -1, -1
	var polT types.Type
	for i := 0; i < st.NumFields(); i++ {
		f := st.Field(i)
		if nt, ok := types.Unalias(f.Type()).(*types.Named); ok && nt.Obj().Pkg() != nil && strings.HasPrefix(nt.Obj().Pkg().Path(), logPath) {
			if b, ok := nt.Underlying().(*types.Basic); ok && b.Info()&types.IsInteger != 0 && strings.Contains(strings.ToLower(f.Name()), "polic") {
				polField, polT = i, nt
			}
		}
		if b, ok := f.Type().Underlying().(*types.Basic); ok && b.Info()&types.IsInteger != 0 && strings.Contains(strings.ToLower(f.Name()), "size") {
			sizeField = i
		}
	}
	if polField < 0 || sizeField < 0 {
		r.Inconclusive(key, "policy / size fields not found")
		return false
	}
	type pol struct {
		name string
		val  int64
	}
	var pols []pol
	for _, n := range c.LogS.Pkg.Scope().Names() {
		if k, ok := c.LogS.Pkg.Scope().Lookup(n).(*types.Const); ok && types.Identical(k.Type(), polT) {
			v, _ := constInt64(k.Val())
			pols = append(pols, pol{n, v})
		}
	}
	if len(pols) < 3 {
		r.Inconclusive(key, "fewer than three policy constants")
		return false
	}
	kind := func(name string) string {
		l := strings.ToLower(name)
		switch {
		case strings.Contains(l, "oldest"):
			return "oldest"
		case strings.Contains(l, "discard"):
			return "discard"
		case strings.Contains(l, "block"):
			return "block"
		}
		return "?"
	}
	const capN = 100
	var bad []string
	nBad, runs := 0, 0
	fail := func(format string, args ...any) {
		nBad++
		if len(bad) < 5 {
			bad = append(bad, fmt.Sprintf(format, args...))
		}
	}
	var oodWhy string
	choices := []struct {
		name string
		f    func(n int) int
	}{{"first ready case", func(n int) int { return 0 }}, {"last ready case", func(n int) int { return n - 1 }}}
	type item struct {
		n     int
		raw   bool
		level int64
		size  int // raw: pad the payload to this size; -1: a nil slice; -2: an empty non-nil slice
	}
	// one scenario: a fresh logger value, lives × (submissions while the worker is held, optional racing pair, drain, Stop)
	scenario := func(p pol, pk string, withLayout bool, extra int, stopAt string, chName string, choose func(int) int, race int) bool {
		var calls []sinkCall
		ip := fw.newInterp(&calls)
		ip.MaxSteps = 40000000
		sched := ip.NewSched()
		defer sched.Kill()
		sched.Choose = choose
		sched.PreemptOps = race != 0
		describe := fmt.Sprintf("policy %s, logger layout %v, %d items beyond the capacity of %d, Stop with the buffer %s, select picks the %s", p.name, withLayout, extra, capN, stopAt, chName)
		if race > 0 {
			describe += fmt.Sprintf(", two producers racing on the buffer (the second one runs after %d channel operation(s) of the first)", race)
		}
		if race < 0 {
			describe += ", a raw write submitted while the worker is between two appenders of the previous one"
		}
		// events carry their submission number in Line; the sink records it at the moment of delivery
		lineIx := -1
		es := fw.eventT.Underlying().(*types.Struct)
		for j := 0; j < es.NumFields(); j++ {
			if es.Field(j).Name() == "Line" {
				lineIx = j
			}
		}
		base := ip.OnInvoke
		midDelivery := race < 0 // race == -1: the worker is interrupted between two appenders of one fan-out
		type deliv struct {
			sink, what string
		}
		var delivered []deliv
		ip.OnInvoke = func(ip *Interp, recv *Sym, method string, args []AV) (AV, bool) {
			switch method {
			case "Append":
				what := "e?"
				if pp, ok := args[0].(*Ptr); ok {
					if ev, ok := pp.load().(*StructV); ok && lineIx >= 0 {
						what = fmt.Sprintf("e%d", avInt(ev.F[lineIx]))
					}
				}
				delivered = append(delivered, deliv{recv.Name, what})
				return TupleV{}, true
			case "Write":
				d := strings.Replace(bytesDesc(args[0]), `\x00`, "", 1)
				if sliceLen(args[0]) == 0 {
					d = "rEMPTY"
				} else if strings.HasPrefix(d, `"raw`) {
					d = "r" + strings.TrimRight(strings.Trim(strings.TrimPrefix(d, `"raw`), `"`), `\nZ`)
				} else {
					d = "L" + d
				}
				delivered = append(delivered, deliv{recv.Name, d})
				if midDelivery {
					sched.preempt("the next appender")
				}
				return TupleV{}, true
			case "ToBytes":
				// the logger-level layout: the line names the event
				if pp, ok := args[0].(*Ptr); ok {
					if ev, ok := pp.load().(*StructV); ok && lineIx >= 0 {
						return ip.bytesAV([]byte(fmt.Sprintf("ev%d", avInt(ev.F[lineIx])))), true
					}
				}
			}
			return base(ip, recv, method, args)
		}
		// two references: ref0 takes [0,400), ref1 takes [400,MAX)
		refs := []refSpec{{min: levelInfo{0, "L0"}, max: levelInfo{400, "L400"}, effMax: 400}, {min: levelInfo{400, "L400"}, max: fw.max, effMax: fw.max.code}}
		lp, err := fw.buildLogger(ip, T, levelInfo{250, "L250"}, fw.max, withLayout, refs)
		if err != nil {
			oodWhy = err.Error()
			return false
		}
		lv := lp.load().(*StructV)
		lv.F[polField] = kInt(p.val)
		lv.F[sizeField] = kInt(capN)
		lp.store(lv)
		method := func(m string) func(args ...AV) func() {
			fn, path := c.methodWithPath(T, m)
			recv := &Ptr{O: lp.O, Path: path}
			return func(args ...AV) func() {
				return func() {
					if fn == nil {
						ood("method %s not found", m)
					}
					ip.call(fn, append([]AV{recv}, args...), nil)
				}
			}
		}
		startF, appendF, writeF, stopF := method("Start"), method("Append"), method("Write"), method("Stop")
		failed := func(t *Task, what string) bool {
			if t.Err == nil {
				return false
			}
			if e, ok := t.Err.(oodError); ok {
				oodWhy = e.Error()
				return true
			}
			fail("%s: %s: %v", describe, what, t.Err)
			return true
		}
		next := 0
		for life := 1; life <= 2; life++ {
			lifeDesc := describe
			if life == 2 {
				lifeDesc += ", second life of the same logger value (Start after Stop)"
			}
			known := map[*Task]bool{}
			for _, t := range sched.Tasks {
				known[t] = true
			}
			main := sched.Spawn("Start", startF())
			known[main] = true
			if sched.Step(main) != "done" || failed(main, "Start") {
				if oodWhy == "" && main.Err == nil {
					fail("%s: Start does not return (%s)", lifeDesc, main.Why)
				}
				return false
			}
			var workers []*Task
			for _, t := range sched.Tasks {
				if !known[t] {
					workers = append(workers, t)
				}
			}
			if len(workers) != 1 {
				fail("%s: Start launches %d goroutines, want one worker", lifeDesc, len(workers))
				return false
			}
			worker := workers[0]
			var submitted []item
			delivered = nil
			blockedCalls := 0
			mkTask := func(it item) *Task {
				if it.raw && it.size < 0 {
					var buf AV = NilV{}
					if it.size == -2 {
						buf = &SliceV{B: &backing{}, Lo: 0, Hi: 0, Cap: 0}
					}
					return sched.Spawn(fmt.Sprintf("Write#%d(empty)", it.n), writeF(buf))
				}
				if it.raw {
					payload := fmt.Sprintf("raw%d\n", it.n)
					if it.n%10 == 9 {
						payload = "\x00" + payload // content is the caller's business: a leading NUL byte, too
					}
					if it.size > len(payload) {
						payload = fmt.Sprintf("raw%d", it.n) + strings.Repeat("Z", it.size-len(payload)) + "\n"
					}
					buf := ip.bytesAV([]byte(payload))
					t := sched.Spawn(fmt.Sprintf("Write#%d", it.n), func() {
						writeF(buf)()
						// the caller reuses its buffer as soon as Write has returned
						if sv, ok := buf.(*SliceV); ok {
							for i := sv.Lo; i < sv.Hi; i++ {
								sv.B.cells[i].V = kInt('#')
							}
						}
					})
					return t
				}
				ev := ip.zeroOf(fw.eventT).(*StructV)
				for j := 0; j < es.NumFields(); j++ {
					if types.Identical(es.Field(j).Type(), fw.ll.levelT) {
						ev.F[j] = fw.ll.level(ip, it.level, fmt.Sprintf("L%d", it.level))
					}
				}
				if lineIx >= 0 {
					ev.F[lineIx] = kInt(int64(it.n))
				}
				return sched.Spawn(fmt.Sprintf("Append#%d", it.n), appendF(&Ptr{O: ip.newObj(ev)}))
			}
			finish := func(t *Task) bool {
				state := t.State
				for n := 0; (state == "new" || state == "ready" || state == "blocked" || state == "running") && n < 20*capN; n++ {
					state = sched.Step(t)
					if failed(t, t.Name) {
						return false
					}
					if state == "blocked" {
						if pk != "block" {
							fail("%s: %s does not return while the worker is held (%s): only Block may wait", lifeDesc, t.Name, t.Why)
							return false
						}
						blockedCalls++
						sched.Step(worker)
						if failed(worker, "the worker") {
							return false
						}
					}
				}
				if state != "done" {
					fail("%s: %s never returns (%s)", lifeDesc, t.Name, t.Why)
					return false
				}
				return true
			}
			submit := func(raw bool, level int64, size int) bool {
				next++
				it := item{n: next, raw: raw, level: level, size: size}
				submitted = append(submitted, it)
				return finish(mkTask(it))
			}
			// an event below the logger's own range [250, max): not a submission — it must be neither queued, delivered nor counted,
			// whatever the state of the buffer (it is left out of `submitted`, so any trace of it shows as a deviation)
			submitDisabled := func() bool {
				next++
				return finish(mkTask(item{n: next, level: 100}))
			}
			total := capN + extra
			okRun := true
			if race < 0 {
				// one raw write is queued, the worker takes it and is interrupted after the first appender; the same producer
				// submits the next raw write; every appender must still see the two in call order
				if life == 2 {
					break
				}
				worker.Preemptible = true
				if !submit(false, 300, 0) || !submit(true, 0, 0) { // an event first, so that the write is really queued
					return false
				}
				sawRaw := func() bool {
					for _, d := range delivered {
						if d.what == "r2" {
							return true
						}
					}
					return false
				}
				for n := 0; n < 80 && !sawRaw() && worker.State != "done"; n++ {
					sched.Step(worker)
					if failed(worker, "the worker") {
						return false
					}
				}
				if !submit(true, 0, 70000) { // a large one: a size-triggered write-through would show here
					return false
				}
				sched.RunUntilQuiet([]*Task{worker}, 400)
				if failed(worker, "the worker") {
					return false
				}
				for _, app := range []string{"appender0", "appender1"} {
					var seq []string
					for _, d := range delivered {
						if d.sink == app && strings.HasPrefix(d.what, "r") {
							seq = append(seq, d.what)
						}
					}
					if len(seq) != 2 || seq[0] != "r2" || seq[1] != "r3" {
						fail("%s: %s receives the raw writes as %v, want [r2 r3] (each once, in call order)", lifeDesc, app, seq)
					}
				}
				worker.Preemptible = false
				stopT := sched.Spawn("Stop", stopF())
				for n := 0; n < 400 && stopT.State != "done"; n++ {
					sched.Step(stopT)
					if stopT.State != "done" {
						sched.Step(worker)
					}
					if failed(stopT, "Stop") || failed(worker, "the worker") {
						return false
					}
				}
				if stopT.State != "done" {
					fail("%s: Stop does not return (%s)", lifeDesc, stopT.Why)
				}
				return true
			}
			if race > 6 {
				total = capN - 1 // exactly one free slot for the two racers
			}
			for i := 1; i <= total-4 && okRun; i++ {
				lvl := int64(300)
				if i%3 == 0 {
					lvl = 450
				}
				okRun = submit(i%5 == 4, lvl, 0)
				if okRun && i%7 == 6 {
					okRun = submitDisabled()
				}
			}
			// … and disabled events arriving at the full (or nearly full) buffer, where an overflow policy would act on them
			for k := 0; k < 2 && okRun; k++ {
				okRun = submitDisabled()
			}
			// the tail: small raw writes, then a large one, with no event in between
			for _, sz := range []int{0, -1, 5000, -2} { // … and a nil and an empty payload: raw writes like any other
				if okRun {
					okRun = submit(true, 0, sz)
				}
			}
			if !okRun {
				return false
			}
			if race > 0 && life == 1 {
				// two more producers on the (full or nearly full) buffer: the first one is stopped after `race` of its channel
				// operations, the second runs to completion, then the first goes on
				next++
				a := item{n: next, level: 300}
				next++
				bIt := item{n: next, raw: true}
				submitted = append(submitted, a, bIt)
				ta, tb := mkTask(a), mkTask(bIt)
				ta.Preemptible = true
				for k := 0; k < (race-1)%6+1 && ta.State != "done"; k++ {
					st := sched.Step(ta)
					if failed(ta, ta.Name) {
						return false
					}
					if st == "blocked" {
						break
					}
				}
				if !finish(tb) || !finish(ta) {
					return false
				}
			}
			if stopAt == "drained" {
				sched.RunUntilQuiet([]*Task{worker}, 6*total+100)
				if failed(worker, "the worker") {
					return false
				}
			}
			stopT := sched.Spawn("Stop", stopF())
			for n := 0; n < 8*total+200 && stopT.State != "done"; n++ {
				sched.Step(stopT)
				if stopT.State != "done" {
					sched.Step(worker)
				}
				if failed(stopT, "Stop") || failed(worker, "the worker") {
					return false
				}
			}
			if stopT.State != "done" {
				fail("%s: Stop does not return (%s; worker: %s %s)", lifeDesc, stopT.Why, worker.State, worker.Why)
				return false
			}
			if worker.State != "done" {
				fail("%s: the worker is still running after Stop has returned (%s)", lifeDesc, worker.Why)
			}
			discarded := int64(-1)
			if gf, path := c.methodWithPath(T, "GetDiscardCounter"); gf != nil {
				if v, err := ip.Run(gf, []AV{&Ptr{O: lp.O, Path: path}}, nil); err == nil {
					discarded = avInt(v)
				}
			}
			// expected deliveries
			var kept []item
			switch pk {
			case "block":
				kept = submitted
			case "discard":
				kept = submitted[:min(len(submitted), capN)]
			case "oldest":
				kept = submitted[max(0, len(submitted)-capN):]
			}
			if race > 0 && life == 1 {
				// with two producers racing only the counts are fixed, not which of the two late items survives or comes first
				nDel := 0 // submissions delivered: a raw write reaches both references, an event exactly one
				for _, d := range delivered {
					if !strings.HasPrefix(d.sink, "appender") {
						continue
					}
					if !strings.HasPrefix(d.what, "r") || d.sink == "appender0" {
						nDel++
					}
				}
				if n := len(kept); discarded >= 0 && int(discarded)+nDel != len(submitted) {
					fail("%s: %d submitted, %d delivered, discard counter %d: delivered + discarded ≠ submitted (%d kept by the policy)", lifeDesc, len(submitted), nDel, discarded, n)
				}
				continue
			}
			var want []deliv
			for _, it := range kept {
				switch {
				case it.raw && it.size < 0:
					want = append(want, deliv{"appender0", "rEMPTY"}, deliv{"appender1", "rEMPTY"})
				case it.raw:
					want = append(want, deliv{"appender0", fmt.Sprintf("r%d", it.n)}, deliv{"appender1", fmt.Sprintf("r%d", it.n)})
				case withLayout && it.level < 400:
					want = append(want, deliv{"appender0", fmt.Sprintf("L\"ev%d\"", it.n)})
				case withLayout:
					want = append(want, deliv{"appender1", fmt.Sprintf("L\"ev%d\"", it.n)})
				case it.level < 400:
					want = append(want, deliv{"appender0", fmt.Sprintf("e%d", it.n)})
				default:
					want = append(want, deliv{"appender1", fmt.Sprintf("e%d", it.n)})
				}
			}
			var got []deliv
			for _, d := range delivered {
				if strings.HasPrefix(d.sink, "appender") {
					got = append(got, d)
				}
			}
			wantDisc := int64(len(submitted) - len(kept))
			if life == 2 && discarded >= 0 {
				discarded -= discBefore(p.name, pk, extra) // the counter is cumulative over both lives
			}
			if len(got) != len(want) {
				fail("%s: %d deliveries for %d submitted items, want %d (first: %v)", lifeDesc, len(got), len(submitted), len(want), firstDeliv(got, 5))
				return false
			}
			for i := range want {
				if got[i] != want[i] {
					fail("%s: delivery %d is %s to %s, want %s to %s (submission order; each item to the reference whose range holds its level; raw bytes to every reference, unchanged although the caller reuses its buffer)", lifeDesc, i+1, got[i].what, got[i].sink, want[i].what, want[i].sink)
					return false
				}
			}
			_ = wantDisc
			if life == 1 && discarded >= 0 && discarded != wantDisc {
				fail("%s: the discard counter is %d, want %d (%d submitted, %d kept)", lifeDesc, discarded, wantDisc, len(submitted), len(kept))
			}
			if pk == "block" && extra > 0 && blockedCalls == 0 {
				fail("%s: no producer call waited although %d items beyond the capacity were submitted while the worker was held", lifeDesc, extra)
			}
		}
		return true
	}
outer:
	for _, p := range pols {
		pk := kind(p.name)
		if pk == "?" {
			continue
		}
		for _, withLayout := range []bool{false, true} {
			for _, extra := range []int{0, 1, 7} {
				for _, stopAt := range []string{"drained", "full"} {
					for _, ch := range choices {
						runs++
						scenario(p, pk, withLayout, extra, stopAt, ch.name, ch.f, 0)
						if oodWhy != "" {
							break outer
						}
					}
				}
			}
		}
		// two producers racing on a full buffer (race 1..6) or on a buffer with one free slot (7..12), the first one
		// interrupted after 1..6 of its channel operations; and a write during a fan-out (-1)
		for _, race := range []int{1, 2, 3, 4, 5, 6, 7, 8, 9, 10, 11, 12, -1} {
			for _, ch := range choices {
				runs++
				scenario(p, pk, false, 0, "full", ch.name, ch.f, race)
				if oodWhy != "" {
					break outer
				}
			}
		}
	}
	r.Count("async_scenarios", runs)
	switch {
	case oodWhy != "":
		r.Inconclusive(key, "%s", oodWhy)
	case len(bad) > 0:
		r.Fail(key, c.pos(T.Obj().Pos()), "%d deviations in %d scripted schedules, e.g. %s", nBad, runs, strings.Join(bad, "; "))
	default:
		okAll = true
		r.OK(key, "%d scripted schedules (3 policies × logger layout on/off × 0/1/7 items beyond a capacity of %d submitted while the worker is held (events of two levels for two references, events below the logger's own range in between and on the full buffer, raw writes whose buffer the caller overwrites afterwards, a 5000-byte write after small ones) × Stop on a drained / full buffer × both choices where a select has several ready cases × two lives of the same value; plus two producers racing on the full buffer with the first interrupted after 1–6 channel operations): Start launches one worker; no producer call waits except under Block; delivered + counted-as-discarded = submitted, each once; delivery order is submission order; Discard drops the arriving items, DiscardOldest the oldest queued ones, Block none; Stop returns after everything accepted was delivered and the worker has finished", runs, capN)
	}
	return okAll
}

func firstDeliv[T any](xs []T, n int) []T {
	if len(xs) > n {
		return xs[:n]
	}
	return xs
}

// discBefore: what the first life of a scenario adds to the cumulative discard counter.
func discBefore(name, pk string, extra int) int64 {
	if pk == "block" {
		return 0
	}
	return int64(extra)
}

func constInt64(v interface{ ExactString() string }) (int64, bool) {
	var n int64
	_, err := fmt.Sscan(v.ExactString(), &n)
	return n, err == nil
}
