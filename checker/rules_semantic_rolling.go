package main

// Rolling-file logger evaluation (P13): a logger type that creates its own file appenders (and an inner logger) in
// Start is evaluated end to end in its synchronous mode over the scripted clock and file system: Start, one event per
// level class, a raw write, Stop — with and without the separate warning file, with and without a logger layout,
// for several configured ranges, and with a directory that already holds an old own file of the running period.

import (
	"fmt"
	"go/types"
	"path/filepath"
	"sort"
	"strings"
	"time"
)

// rollingLoggerTypes: logger types with file attributes of their own (FileName) that are not leaf appenders.
func (c *Ctx) rollingLoggerTypes(ro *Roles) []*types.Named {
	var out []*types.Named
	for _, T := range ro.Loggers {
		st, ok := T.Underlying().(*types.Struct)
		if !ok {
			continue
		}
		hasName, hasAge := false, false
		for i := 0; i < st.NumFields(); i++ {
			switch st.Field(i).Name() {
			case "FileName":
				hasName = true
			case "MaxAge":
				hasAge = true
			}
		}
		if hasName && hasAge {
			out = append(out, T)
		}
	}
	return out
}

func (c *Ctx) checkRollingLoggerSemantics(r *Report, ro *Roles, rule string) map[string]bool {
	if c.rollMemo != nil {
		return c.rollMemo
	}
	res := map[string]bool{}
	defer func() { c.rollMemo = res }()
	for _, T := range c.rollingLoggerTypes(ro) {
		key := rule + ":" + T.Obj().Name()
		var bad []string
		nBad, runs := 0, 0
		fail := func(format string, args ...any) {
			nBad++
			if len(bad) < 5 {
				bad = append(bad, fmt.Sprintf(format, args...))
			}
		}
		var oodWhy string
		type rng struct{ lo, hi int64 }
		ranges := []rng{{0, 999}, {300, 999}, {300, 500}, {400, 600}, {500, 501}, {500, 999}, {450, 999}}
	outer:
		for _, separate := range []bool{false, true} {
			for _, withLayout := range []bool{false, true} {
				for _, lr := range ranges {
					for _, stale := range []bool{false, true} {
						w, ew, why := c.newFsWorld(ro)
						if w == nil {
							r.Inconclusive(key, "%s", why)
							return res
						}
						ip := w.ip
						layI := c.logType("Layout")
						lv := ip.zeroOf(T).(*StructV)
						fillStruct(ip, lv, T, func(parent *types.Struct, f *types.Var) (AV, bool) {
							switch {
							case layI != nil && types.Identical(f.Type(), layI):
								if withLayout {
									return &IfaceV{T: types.NewPointer(T), V: &Sym{Name: "layout"}}, true
								}
								return NilV{}, true
							case f.Name() == "FileDir":
								return kStr("/logs"), true
							case f.Name() == "FileName":
								return kStr("app.log"), true
							case f.Name() == "Name":
								return kStr("rolling"), true
							case isNamed(f.Type(), "time", "Duration"):
								return kInt(int64(24 * time.Hour)), true
							case f.Name() == "MaxAge":
								return kInt(1), true
							case f.Name() == "Separate":
								return kBool(separate), true
							case f.Name() == "AsyncWrite":
								return kBool(false), true
							case f.Name() == "BufferSize":
								return kInt(1000), true
							case types.Identical(f.Type(), ew.ll.rangeT):
								// registered levels by their registered names (MAX is what "open-ended" is compared with)
								nameOf := func(code int64) string {
									for _, li := range ew.lg {
										if li.code == code {
											return li.name
										}
									}
									return fmt.Sprintf("L%d", code)
								}
								rg := ip.zeroOf(ew.ll.rangeT).(*StructV)
								rg.F[ew.ll.minIdx] = ew.ll.level(ip, lr.lo, nameOf(lr.lo))
								rg.F[ew.ll.maxIdx] = ew.ll.level(ip, lr.hi, nameOf(lr.hi))
								return rg, true
							}
							return nil, false
						})
						recv := &Ptr{O: ip.newObj(lv)}
						call := func(m string, args ...AV) (AV, string) {
							fn, path := c.methodWithPath(T, m)
							if fn == nil {
								oodWhy = "method " + m + " not found"
								return nil, "ood"
							}
							w.reads = 0
							ip.Steps = 0
							runs++
							v, err := ip.Run(fn, append([]AV{&Ptr{O: recv.O, Path: path}}, args...), nil)
							if err != nil {
								if _, isOOD := err.(oodError); isOOD {
									oodWhy = err.Error()
									return nil, "ood"
								}
								return nil, err.Error()
							}
							return v, "ok"
						}
						// the directory: with `stale`, an own file of the running period (rotation is daily) that was last
						// modified five hours ago — older than the maximum age of one hour — and its .wf sibling
						t0 := time.Date(2025, 3, 29, 14, 7, 33, 0, time.UTC)
						w.now = t0
						if stale {
							early := t0.Add(-5 * time.Hour)
							for _, n := range []string{"app.log." + early.Format("20060102150405"), "app.log.wf." + early.Format("20060102150405"), "app.log.20250101000000"} {
								w.dir = append(w.dir, retEntry{name: n, mtime: early})
							}
						}
						describe := fmt.Sprintf("range [%d,%d), separate=%v, logger layout=%v, old own files in the directory=%v", lr.lo, lr.hi, separate, withLayout, stale)
						res0, out := call("Start")
						if out == "ood" {
							break outer
						}
						if out != "ok" {
							fail("%s: Start %s", describe, out)
							continue
						}
						if !isNilAV(res0) {
							fail("%s: Start returns an error", describe)
							continue
						}
						openNow := func() []string {
							var ps []string
							for h, p := range w.paths {
								if w.open[h] {
									ps = append(ps, p)
								}
							}
							sort.Strings(ps)
							return ps
						}
						started := openNow()
						wantOpen := 1
						if separate {
							wantOpen = 2
						}
						if len(started) != wantOpen {
							fail("%s: after Start %d file(s) are open %v, want %d", describe, len(started), started, wantOpen)
							continue
						}
						for _, e := range w.events {
							if e.op == "remove" {
								for _, p := range started {
									if filepath.Clean(e.path) == filepath.Clean(p) {
										fail("%s: Start removes %s, the file it has just opened for writing", describe, e.path)
									}
								}
							}
						}
						isWF := func(p string) bool { return strings.Contains(filepath.Base(p), ".wf.") }
						// one event per level class inside the logger's range (what lies outside never reaches Append: the entry
						// points gate on GetLevel, which C01.entry-values decides)
						if gl, path := c.methodWithPath(T, "GetLevel"); gl != nil {
							v, err := ip.Run(gl, []AV{&Ptr{O: recv.O, Path: path}}, nil)
							if err == nil {
								if rv, ok := v.(*StructV); ok {
									lo, hi := rv.F[ew.ll.minIdx].(*StructV), rv.F[ew.ll.maxIdx].(*StructV)
									if avInt(lo.F[ew.ll.codeIdx]) != lr.lo || avInt(hi.F[ew.ll.codeIdx]) != lr.hi {
										fail("%s: GetLevel reports [%d,%d), not the configured range (the entry points gate on it)", describe, avInt(lo.F[ew.ll.codeIdx]), avInt(hi.F[ew.ll.codeIdx]))
									}
								}
							}
						}
						for _, L := range []int64{lr.lo, lr.lo + 1, 299, 300, 399, 400, 401, 499, 500, 501, 600, 700, lr.hi - 1} {
							if L < lr.lo || L >= lr.hi {
								continue
							}
							ev := ip.zeroOf(ew.eventT).(*StructV)
							es := ew.eventT.Underlying().(*types.Struct)
							for i := 0; i < es.NumFields(); i++ {
								if types.Identical(es.Field(i).Type(), ew.ll.levelT) {
									ev.F[i] = ew.ll.level(ip, L, fmt.Sprintf("L%d", L))
								}
							}
							before := len(w.events)
							w.now = w.now.Add(time.Second)
							if _, out := call("Append", &Ptr{O: ip.newObj(ev)}); out == "ood" {
								break outer
							} else if out != "ok" {
								fail("%s: Append of a level-%d event %s", describe, L, out)
								continue
							}
							var wrote []string
							for _, e := range w.events[before:] {
								if e.op == "write" {
									wrote = append(wrote, e.path)
								}
							}
							wantWF := separate && L >= 400
							switch {
							case len(wrote) != 1:
								fail("%s: a level-%d event inside the logger's range is written %d time(s) %v, want once", describe, L, len(wrote), wrote)
							case isWF(wrote[0]) != wantWF:
								fail("%s: a level-%d event is written to %s, want the %s file", describe, L, wrote[0], map[bool]string{true: ".wf", false: "normal"}[wantWF])
							}
						}
						// a raw write goes to every file, unchanged
						before := len(w.events)
						if _, out := call("Write", ip.bytesAV([]byte("raw line\n"))); out == "ood" {
							break outer
						} else if out != "ok" {
							fail("%s: Write %s", describe, out)
						} else {
							n := 0
							for _, e := range w.events[before:] {
								if e.op == "write" {
									n++
									if e.data != "raw line\n" {
										fail("%s: raw bytes reach %s as %q", describe, e.path, e.data)
									}
								}
							}
							if n != wantOpen {
								fail("%s: raw bytes are written to %d file(s), want %d", describe, n, wantOpen)
							}
						}
						if _, out := call("Stop"); out == "ood" {
							break outer
						} else if out != "ok" {
							fail("%s: Stop %s", describe, out)
						} else if left := openNow(); len(left) != 0 {
							fail("%s: Stop leaves %v open", describe, left)
						}
					}
				}
			}
		}
		r.Count("rolling_logger_calls", runs)
		switch {
		case oodWhy != "":
			r.Inconclusive(key, "%s", oodWhy)
		case len(bad) > 0:
			r.Fail(key, c.pos(T.Obj().Pos()), "%d deviations, e.g. %s", nBad, strings.Join(bad, "; "))
		default:
			res[T.Obj().Name()] = true
			r.OK(key, "synchronous mode evaluated end to end over the scripted clock and file system (%d calls: 7 configured ranges × separate on/off × logger layout on/off × empty directory / old own files of the running period): Start opens one file (two with separate) and removes nothing it writes to, GetLevel is the configured range, every in-range event is written exactly once — to the .wf file iff separate and level ≥ WARN —, raw bytes reach every file unchanged, Stop closes everything", runs)
		}
	}
	return res
}
