#!/bin/sh
# Builds the static checker offline. Safe to run repeatedly.
set -e
cd "$(dirname "$0")/checker"
export PATH=/opt/veriftools/go1.26.8/bin:$PATH
export GOTOOLCHAIN=local GOFLAGS=-mod=mod GOPROXY=off GOSUMDB=off CGO_ENABLED=0
unset GOWORK
go build -o vcheck .
echo "vcheck built: $(./vcheck -version 2>/dev/null || true)"
