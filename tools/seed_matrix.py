#!/usr/bin/env python3
"""Runs every check against every seeded change (scratch copies, N in parallel) and records which obligation keys
fire in seeded/<id>/meta.json ("detected_by") and seeded/MATRIX.md.  Usage: tools/seed_matrix.py [jobs]"""
import json, os, subprocess, glob, re, sys
from concurrent.futures import ThreadPoolExecutor
jobs = int(sys.argv[1]) if len(sys.argv) > 1 else 8
dirs = sorted(glob.glob("/verif/seeded/*/"))
def run(d):
    return d, subprocess.run(["/verif/tools/trypatch.sh", d + "patch.diff"], capture_output=True).stdout.decode("utf-8", "replace")
rows = []
with ThreadPoolExecutor(jobs) as ex:
    for d, out in ex.map(run, dirs):
        sid = os.path.basename(d.rstrip("/"))
        meta = json.load(open(d + "meta.json"))
        keys = re.findall(r"^\[(C\d+)\] (FAIL|UNDECIDED)\s+(\S+)", out, re.M)
        meta["detected_by"] = sorted({f"{k[2]} ({k[1].lower()})" for k in keys})
        meta["detected"] = bool(keys)
        json.dump(meta, open(d + "meta.json", "w"), indent=1)
        evaluators = sorted({k[2].split(':')[0] for k in keys if "-values" in k[2] or ".prefix-order" in k[2]})
        shape = sorted({k[2].split(':')[0] for k in keys if not ("-values" in k[2] or ".prefix-order" in k[2])})
        rows.append((sid, meta["property"], "yes" if keys else "NO", ", ".join(evaluators), ", ".join(shape)))
with open("/verif/seeded/MATRIX.md", "w") as f:
    f.write("| seed | property | detected | evaluators (P13) that report it | shape rules that report it |\n|---|---|---|---|---|\n")
    for r in rows: f.write("| %s | %s | %s | %s | %s |\n" % r)
n = len(rows); det = sum(1 for r in rows if r[2] == "yes"); ev = sum(1 for r in rows if r[3]); sh = sum(1 for r in rows if r[4])
print(f"{n} seeds, {det} detected; {ev} by an evaluator, {sh} by a shape rule, {sum(1 for r in rows if r[3] and not r[4])} by evaluators only, {sum(1 for r in rows if r[4] and not r[3])} by shape rules only")
