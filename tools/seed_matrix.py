#!/usr/bin/env python3
"""Runs every check against every seeded change (scratch copies) and records which obligation keys fire
in seeded/<id>/meta.json ("detected_by") and seeded/MATRIX.md."""
import json, os, subprocess, glob, re
rows = []
for d in sorted(glob.glob("/verif/seeded/*/")):
    sid = os.path.basename(d.rstrip("/"))
    meta = json.load(open(d + "meta.json"))
    out = subprocess.run(["/verif/tools/trypatch.sh", d + "patch.diff"], capture_output=True, text=True).stdout
    keys = re.findall(r"^\[(C\d+)\] (FAIL|UNDECIDED)\s+(\S+)", out, re.M)
    meta["detected_by"] = [f"{k[2]} ({k[1].lower()})" for k in keys]
    meta["detected"] = bool(keys)
    json.dump(meta, open(d + "meta.json", "w"), indent=1)
    rows.append((sid, meta["property"], "yes" if keys else "NO", ", ".join(sorted({k[2].split(':')[0] for k in keys}))))
with open("/verif/seeded/MATRIX.md", "w") as f:
    f.write("| seed | property | detected | rules that fire |\n|---|---|---|---|\n")
    for r in rows: f.write("| %s | %s | %s | %s |\n" % r)
print(open("/verif/seeded/MATRIX.md").read())
