#!/bin/sh
# tools/regress.sh [-j N] [id-regex] — every seeded change must be reported, every keep / keep-ext variant must stay silent,
# every break variant must be reported under its expected key. Prints only the deviations and a summary line.
J=8
[ "$1" = "-j" ] && { J="$2"; shift 2; }
FILTER="${1:-.}"
HERE="$(cd "$(dirname "$0")/.." && pwd)"
OUT="$(mktemp -d /var/tmp/regress-XXXXXX)"
trap 'rm -rf "$OUT"' EXIT
{
  for d in "$HERE"/seeded/*/; do [ -f "$d/patch.diff" ] && echo "$d/patch.diff seed $(basename "$d")"; done
  for f in "$HERE"/variants/break/*.patch; do echo "$f break $(basename "$f" .patch)"; done
  for f in "$HERE"/variants/keep/*.patch "$HERE"/variants/keep-ext/*.patch "$HERE"/variants/pending/*.patch; do [ -f "$f" ] || continue; echo "$f keep $(basename "$f" .patch)"; done
} | grep -E "$FILTER" > "$OUT/list"
cat "$OUT/list" | xargs -P "$J" -L 1 sh -c '
  f="$0"; kind="$1"; id="$2"; HERE="'"$HERE"'"
  res="$("$HERE/tools/trypatch.sh" "$f" 2>&1)"
  last="$(printf "%s\n" "$res" | tail -1)"
  keys="$(printf "%s\n" "$res" | grep -E "^\[C" | awk "{print \$3}" | cut -d: -f1 | sort -u | tr "\n" " ")"
  case "$last" in
    *"DOES NOT"*) echo "SKIP $kind $id ($last)";;
    "RESULT: reported") if [ "$kind" = keep ]; then echo "FALSE-ALARM $id: $keys"; else
        exp="$(grep "^# expect:" "$f" 2>/dev/null | sed "s/# expect: *//" | tr "\n" " ")"; bad=""
        for e in $exp; do printf "%s\n" "$res" | grep -qF -- "$e" || bad="$bad $e"; done
        [ -n "$bad" ] && echo "WRONG-KEY $id (want$bad; got $keys)" || echo "ok $kind $id"; fi;;
    "RESULT: silent") if [ "$kind" = keep ]; then echo "ok keep $id"; else echo "MISSED $kind $id"; fi;;
    *) echo "ERROR $kind $id: $last";;
  esac' > "$OUT/res"
grep -v '^ok ' "$OUT/res" | sort
echo "SUMMARY ok=$(grep -c '^ok ' "$OUT/res") missed=$(grep -c '^MISSED' "$OUT/res") false-alarm=$(grep -c '^FALSE-ALARM' "$OUT/res") wrong-key=$(grep -c '^WRONG-KEY' "$OUT/res") skip=$(grep -c '^SKIP' "$OUT/res") error=$(grep -c '^ERROR' "$OUT/res") total=$(wc -l < "$OUT/list")"
