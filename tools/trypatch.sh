#!/bin/sh
# tools/trypatch.sh <patch.diff> [Cxx ...]
# Applies a patch to a scratch copy of /repo's current tree (outside /repo and /verif), runs the
# given checks (default: all 20) against the copy without writing evidence, prints what fired, removes the copy.
set -e
P="$(readlink -f "$1")"; shift
PROPS="$*"; [ -n "$PROPS" ] || PROPS="C01 C02 C03 C04 C05 C06 C07 C08 C09 C10 C11 C12 C13 C14 C15 C16 C17 C18 C19 C20"
D="$(mktemp -d "${TMPDIR:-/var/tmp}/trypatch-XXXXXX")"
trap 'rm -rf "$D"' EXIT
rsync -a --exclude .git --exclude logs --exclude benchmarks /repo/ "$D/"
(cd "$D" && patch -p1 -s -f --no-backup-if-mismatch -i "$P") || { echo "PATCH DOES NOT APPLY"; exit 3; }
(cd "$D" && PATH=/opt/veriftools/go1.26.8/bin:$PATH GOTOOLCHAIN=local GOFLAGS= go build ./... ) || { echo "PATCHED TREE DOES NOT BUILD"; exit 4; }
HERE="$(cd "$(dirname "$0")/.." && pwd)"
[ -x "$HERE/checker/vcheck" ] || "$HERE/setup.sh" >/dev/null
VC="${VCHECK:-$HERE/checker/vcheck}"
fired=0
LIST="$(echo $PROPS | tr ' ' ',')"
case "$LIST" in *,*) ;; *) LIST="$LIST,$LIST";; esac
out="$(timeout 900 "$VC" -prop "$LIST" -tier quick -repo "$D" -verif "$HERE" -nowrite 2>&1 || true)"
for p in $PROPS; do
  printf '%s\n' "$out" | grep -q "^SUMMARY property=$p " || out="$out
UNDECIDED  $p.internal:no-summary  the checker did not finish (crash or timeout)"
done
bad="$(printf '%s\n' "$out" | grep -E '^(FAIL|UNDECIDED)' | sort -u || true)"
if [ -n "$bad" ]; then fired=1; printf '%s\n' "$bad" | cut -c1-420 | sed -E 's/^(FAIL|UNDECIDED) +(C[0-9]+)/[\2] \1  \2/'; fi
[ $fired -eq 1 ] && echo "RESULT: reported" || echo "RESULT: silent"
