#!/usr/bin/env python3
"""tools/confirm_seed.py <seed-id> <property> <src-dir> [--demo-dir <pkg subdir>] [--run <regex>]
Confirms a seeded change in a scratch copy of /repo (outside /repo and /verif):
  1. demo passes on the unchanged tree, 2. patch applies and builds, 3. the 158 baseline tests still pass,
  4. demo fails with the patch.  On success copies patch.diff + demo + NOTES.md to /verif/seeded/<seed-id>/ and writes meta.json."""
import json, os, shutil, subprocess, sys, tempfile, glob

sid, prop, src = sys.argv[1], sys.argv[2], sys.argv[3]
demo_dir = "."
run = None
args = sys.argv[4:]
while args:
    a = args.pop(0)
    if a == "--demo-dir": demo_dir = args.pop(0)
    if a == "--run": run = args.pop(0)

env = dict(os.environ)
for k in ("GOFLAGS", "GOTOOLCHAIN", "GOWORK"): env.pop(k, None)

def sh(cmd, cwd, timeout=900):
    p = subprocess.run(cmd, cwd=cwd, env=env, shell=True, capture_output=True, text=True, timeout=timeout)
    return p.returncode, (p.stdout + p.stderr)

d = tempfile.mkdtemp(prefix="seed-", dir="/var/tmp")
try:
    sh(f"rsync -a --exclude .git /repo/ {d}/", "/")
    demos = [f for f in glob.glob(os.path.join(src, "*.go"))]
    for f in demos:
        shutil.copy(f, os.path.join(d, demo_dir, os.path.basename(f) if f.endswith("_test.go") else os.path.basename(f).replace(".go", "_test.go")))
    pkg = "./" + demo_dir if demo_dir != "." else "."
    sel = f"-run '{run}'" if run else "-run 'Demo|C[0-9][0-9]|Seed'"
    rc0, out0 = sh(f"go test -count=1 {sel} {pkg}", d)
    print("demo on unchanged tree:", "PASS" if rc0 == 0 else "FAIL")
    rc, out = sh(f"patch -p1 -s -f --no-backup-if-mismatch -i {os.path.join(src, 'patch.diff')}", d)
    if rc != 0: print("patch does not apply:", out); sys.exit(2)
    rc, out = sh("go build ./...", d)
    if rc != 0: print("does not build:", out[-800:]); sys.exit(2)
    rc1, out1 = sh(f"go test -count=1 {sel} {pkg}", d)
    print("demo with the change:", "PASS" if rc1 == 0 else "FAIL")
    # baseline without the demo files
    for f in demos:
        t = os.path.join(d, demo_dir, os.path.basename(f) if f.endswith("_test.go") else os.path.basename(f).replace(".go", "_test.go"))
        os.remove(t)
    rcb, outb = sh(f"python3 /verif/tools/baseline.py {d}", "/")
    print(outb.strip().splitlines()[0])
    ok = rc0 == 0 and rc1 != 0 and rcb == 0
    if not ok:
        print("NOT CONFIRMED"); print(out0[-600:]); print(out1[-600:]); sys.exit(1)
    dst = f"/verif/seeded/{sid}"
    os.makedirs(dst, exist_ok=True)
    shutil.copy(os.path.join(src, "patch.diff"), dst)
    for f in demos: shutil.copy(f, dst)
    if os.path.exists(os.path.join(src, "NOTES.md")): shutil.copy(os.path.join(src, "NOTES.md"), dst)
    fail_tail = "\n".join([l for l in out1.splitlines() if "FAIL" in l or "---" in l][:6])
    meta = {"seed": sid, "property": prop, "repo_commit": subprocess.run("git -C /repo rev-parse --short HEAD", shell=True, capture_output=True, text=True).stdout.strip(),
            "demo_files": [os.path.basename(f) for f in demos], "demo_package_dir": demo_dir,
            "confirmed": {"demo_passes_unchanged": True, "demo_fails_with_change": True, "baseline_158_pass_with_change": True,
                          "commands": [f"go test -count=1 {sel} {pkg} (unchanged: pass)", "patch -p1 < patch.diff; go build ./...", f"go test -count=1 {sel} {pkg} (changed: fail)", "python3 /verif/tools/baseline.py <scratch> (158/158)"],
                          "failure_excerpt": fail_tail},
            "needs_to_manifest": "see NOTES.md", "detected_by": []}
    json.dump(meta, open(os.path.join(dst, "meta.json"), "w"), indent=1)
    print("CONFIRMED ->", dst)
finally:
    shutil.rmtree(d, ignore_errors=True)
