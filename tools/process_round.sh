#!/bin/sh
# tools/process_round.sh <outdir> <suffix-prefix> Cxx [Cyy ...]
# For each property and each of A/B: run all checks on the patch, confirm the seed, store under seeded/<Cxx>-<prefix><a|b>.
OUT="$1"; PFX="$2"; shift 2
cd /verif
for p in "$@"; do
  for x in A B; do
    d="$OUT/$p/$x"
    [ -f "$d/patch.diff" ] || { echo "== $p/$x: no patch"; continue; }
    sid="$p-$PFX$(echo $x | tr AB ab)"
    echo "== $p/$x -> $sid"
    tools/trypatch.sh "$d/patch.diff" 2>&1 | cut -c1-300
    dd="."
    for f in "$d"/*_test.go; do grep -q '^package expr' "$f" 2>/dev/null && dd="expr"; done
    runpat="$(grep -ho 'func Test[A-Za-z0-9_]*' "$d"/*_test.go | sed 's/func //' | tr '\n' '|' | sed 's/|$//')"
    python3 tools/confirm_seed.py "$sid" "$p" "$d" --demo-dir "$dd" --run "^($runpat)\$" 2>&1 | grep -E "^(stable|CONFIRMED|NOT|demo|patch|does)" | tr '\n' ' '; echo
  done
done
