#!/bin/sh
# tools/selftest.sh [Cxx ...] — runs every variant of the given properties (default all) through its own check
# and prints one line per variant. Used while developing; the thorough tier does the same per property.
HERE="$(cd "$(dirname "$0")/.." && pwd)"
PROPS="$*"
for f in "$HERE"/variants/break/*.patch "$HERE"/variants/keep/*.patch "$HERE"/variants/keep-ext/*.patch; do
  [ -f "$f" ] || continue
  b="$(basename "$f" .patch)"; p="${b%%-*}"; kind="$(basename "$(dirname "$f")")"; [ "$kind" = keep-ext ] && kind=keep
  if [ -n "$PROPS" ] && [ "$p" != "ALL" ]; then case " $PROPS " in *" $p "*) ;; *) continue;; esac; fi
  exp="$(grep '^# expect:' "$f" | sed 's/# expect: *//' | tr '\n' ' ')"
  props="$p"
  case "$f" in */keep-ext/*) p=ALL;; esac
  [ "$p" = "ALL" ] && props="C01 C02 C03 C04 C05 C06 C07 C08 C09 C10 C11 C12 C13 C14 C15 C16 C17 C18 C19 C20"
  # expectations may name other properties too
  for e in $exp; do q="${e%%.*}"; case " $props " in *" $q "*) ;; *) props="$props $q";; esac; done
  out="$("$HERE/tools/trypatch.sh" "$f" $props 2>&1)"
  res="$(printf '%s\n' "$out" | tail -1)"
  keys="$(printf '%s\n' "$out" | grep -E '^\[C[0-9]+\] (FAIL|UNDECIDED)' | awk '{print $3}' | tr '\n' ' ')"
  verdict="OK"
  if [ "$kind" = break ]; then
    [ "$res" = "RESULT: reported" ] || verdict="MISSED"
    for e in $exp; do case "$keys" in *"$e"*) ;; *) [ "$verdict" = OK ] && verdict="WRONG-KEY";; esac; done
  else
    [ "$res" = "RESULT: silent" ] || verdict="FALSE-ALARM"
  fi
  case "$res" in *"DOES NOT"*) verdict="SKIP($res)";; esac
  printf '%-12s %-6s %-45s %s\n' "$verdict" "$kind" "$b" "$keys" | cut -c1-260
done
