#!/bin/sh
# Regenerates variants/keep/ALL-unexported-renames.patch: a behaviour-preserving rename of unexported
# helpers, package variables and walker methods (gofmt -r). Every check must stay silent on it and must
# produce the same number of obligations as on the unrenamed tree (no rule may silently lose its anchor).
set -e
D="$(mktemp -d "${TMPDIR:-/var/tmp}/ren-XXXXXX")"; trap 'rm -rf "$D"' EXIT
rsync -a --exclude .git --exclude logs --exclude benchmarks /repo/ "$D/"
cd "$D"
export PATH=/opt/veriftools/go1.26.8/bin:$PATH GOTOOLCHAIN=local GOFLAGS=
for r in 'toCamelKey -> camelize' 'injectAttribute -> setAttribute' 'injectElement -> setElement' 'getLogger -> loggerOf' \
 'tagRegistry -> allTags' 'loggerMap -> handles' 'levelRegistry -> levelsByName' 'defaultLogger -> builtinLogger' \
 'enableCaller -> withCaller' 'fastCaller -> quickCaller' 'record -> emit' 'isValidTag -> tagOK' 'sortByLevel -> orderRefs' \
 'sendToAppenders -> fanOutEvent' 'writeToAppenders -> fanOutBytes' 'writeRawToAppenders -> fanOutRaw' 'onBufferFull -> overflow' \
 'initRollingFileLogger -> setupRolling' 'clearExpiredFiles -> prune' 'createFile -> openNext' 'rotate -> roll' \
 'tryAddRuneSelf -> ascii' 'tryAddRuneError -> badByte' 'appendSeparator -> sep' 'discardCounter -> dropped' \
 'bufferPool -> bufPool' 'eventPool -> evPool' 'frameCache -> pcCache' 'unquote -> unq' 'parseExpr -> walkExpr' \
 'parseInnerExpr -> walkField' 'global -> state'; do gofmt -r "$r" -w *.go expr/*.go; done
go build ./...
( echo "# variant: ALL-unexported-renames (keep)"; diff -ruN --exclude=.git --exclude=logs --exclude=benchmarks /repo . | sed 's#^--- /repo/#--- a/#; s#^+++ \./#+++ b/#' | grep -v '^diff -ruN' ) > /verif/variants/keep/ALL-unexported-renames.patch || true
echo "written: $(wc -l < /verif/variants/keep/ALL-unexported-renames.patch) lines"
# second variant: parameters, locals and unexported struct fields renamed
cd /; rm -rf "$D"; D="$(mktemp -d "${TMPDIR:-/var/tmp}/ren-XXXXXX")"
rsync -a --exclude .git --exclude logs --exclude benchmarks /repo/ "$D/"
cd "$D"
for r in 'ctx -> cx' 'level -> lvl' 'fields -> fs' 'skip -> depth' 'format -> fmtstr' 'logger -> lg' 'enc -> en' 'key -> k0' \
 'val -> v0' 'buf -> bb' 'subType -> sub' 'mainType -> main0' 'action -> act' 'data -> src' 'name -> nm' 'prefix -> pfx'; do
  gofmt -r "$r" -w *.go expr/parse.go
done
go build ./...
( echo "# variant: ALL-param-renames (keep)"; diff -ruN --exclude=.git --exclude=logs --exclude=benchmarks /repo . | sed 's#^--- /repo/#--- a/#; s#^+++ \./#+++ b/#' | grep -v '^diff -ruN' ) > /verif/variants/keep/ALL-param-renames.patch || true
echo "written: $(wc -l < /verif/variants/keep/ALL-param-renames.patch) lines"
