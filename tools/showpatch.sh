#!/bin/sh
# tools/showpatch.sh <patch> <regex> Cxx[,Cyy] — full checker output lines matching regex on a scratch copy with the patch applied
P="$(readlink -f "$1")"; RE="$2"; PROPS="$3"
D="$(mktemp -d /var/tmp/showpatch-XXXXXX)"; trap 'rm -rf "$D"' EXIT
rsync -a --exclude .git --exclude benchmarks /repo/ "$D/"
(cd "$D" && grep -v '^#' "$P" | patch -p1 -s -f --no-backup-if-mismatch) || { echo "PATCH DOES NOT APPLY"; exit 3; }
case "$PROPS" in *,*) ;; *) PROPS="$PROPS,$PROPS";; esac
VCHECK_DEBUG="$VCHECK_DEBUG" /verif/checker/vcheck -prop "$PROPS" -tier quick -repo "$D" -verif /verif -nowrite 2>&1 | grep -E "$RE" | sort -u | cut -c1-${WIDTH:-400}
