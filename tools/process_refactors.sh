#!/bin/sh
# tools/process_refactors.sh <outdir> <prefix> Cxx [Cyy ...]
# For each property and each of A/B/C: check that the refactoring applies, builds and keeps the 158 baseline tests
# green in a scratch copy, then run ALL checks on it. A silent result is stored as variants/keep-ext/<Cxx>-<prefix><x>.patch
# (with NOTES as comment header); a reported result is printed for triage (false alarm of the checker, or the
# "refactoring" changed behaviour after all).
OUT="$1"; PFX="$2"; shift 2
cd /verif
mkdir -p variants/keep-ext
for p in "$@"; do
  for x in ${LETTERS:-A B C}; do
    d="$OUT/$p/$x"
    [ -f "$d/patch.diff" ] || { echo "== $p/$x: no patch"; continue; }
    id="$p-$PFX$(echo $x | tr ABCK abck)"
    echo "== $p/$x -> $id"
    S="$(mktemp -d /var/tmp/refac-XXXXXX)"
    rsync -a --exclude .git /repo/ "$S/"
    if ! (cd "$S" && patch -p1 -s -f --no-backup-if-mismatch -i "$d/patch.diff"); then echo "PATCH DOES NOT APPLY"; rm -rf "$S"; continue; fi
    if ! (cd "$S" && env -u GOFLAGS -u GOTOOLCHAIN go build ./... 2>&1 | tail -3); then echo "DOES NOT BUILD"; rm -rf "$S"; continue; fi
    base="$(python3 tools/baseline.py "$S" 2>&1 | head -1)"
    rm -rf "$S"
    echo "baseline: $base"
    out="$(tools/trypatch.sh "$d/patch.diff" 2>&1 | cut -c1-400)"
    echo "$out"
    case "$base" in *"158/158"*) ;; *) echo "SKIP (tests do not pass)"; continue;; esac
    { echo "# variant: $id (keep, written by an independent sub-agent as a behaviour-preserving refactoring)"; sed 's/^/# note: /' "$d/NOTES.md" 2>/dev/null | head -40; cat "$d/patch.diff"; } > "/tmp/$id.patch"
    case "$out" in *"RESULT: silent"*) mv "/tmp/$id.patch" "variants/keep-ext/$id.patch"; echo "STORED keep-ext/$id.patch";; *) mv "/tmp/$id.patch" "variants/pending/$id.patch"; echo "TRIAGE variants/pending/$id.patch";; esac
  done
done
