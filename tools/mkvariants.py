#!/usr/bin/env python3
"""Generates /verif/variants/{break,keep}/<Cxx>-<name>.patch from the edit specs below,
as unified diffs against /repo's current working tree. Each patch carries `# expect:` lines
(obligation-key prefixes that must be reported for a break variant). Re-run after /repo changes.
The patches are inputs of the thorough tier's rule self-test (applied to scratch copies only)."""
import difflib, os, sys

REPO = "/repo"
OUT = "/verif/variants"

V = []  # (prop, name, kind, expects, [(file, old, new), ...], comment)

BASES = {}  # (prop, name) -> keep-ext patch applied before the edits

def v(prop, name, kind, expects, edits, comment="", base=None):
    V.append((prop, name, kind, expects, edits, comment))
    if base:
        BASES[(prop, name)] = base

# ---------------------------------------------------------------- C01
v("C01", "enable-upper-inclusive", "break", ["C01.enable"], [("log_level.go",
  "return l.code >= c.MinLevel.code && l.code < c.MaxLevel.code",
  "return l.code >= c.MinLevel.code && l.code <= c.MaxLevel.code")])
v("C01", "enable-lower-exclusive", "break", ["C01.enable"], [("log_level.go",
  "return l.code >= c.MinLevel.code && l.code < c.MaxLevel.code",
  "return l.code > c.MinLevel.code && l.code < c.MaxLevel.code")])
v("C01", "enable-rewritten", "keep", [], [("log_level.go",
  "return l.code >= c.MinLevel.code && l.code < c.MaxLevel.code",
  "return !(l.code < c.MinLevel.code) && c.MaxLevel.code > l.code")])
v("C01", "warnf-records-info", "break", ["C01.entry:Warnf"], [("log.go",
  "record(ctx, WarnLevel, tag.tag, l, 1, Msgf(format, args...))",
  "record(ctx, InfoLevel, tag.tag, l, 1, Msgf(format, args...))")])
v("C01", "debug-gates-trace", "break", ["C01.entry:Debug"], [("log.go",
  "func Debug(ctx context.Context, tag *Tag, fn func() []Field) {\n\tif l := getLogger(tag); l.GetLevel().Enable(DebugLevel) {",
  "func Debug(ctx context.Context, tag *Tag, fn func() []Field) {\n\tif l := getLogger(tag); l.GetLevel().Enable(TraceLevel) {")])
v("C01", "async-append-ungated", "break", ["C01.gate-logger:(*AsyncLogger).Append"], [("plugin_logger.go",
  "func (c *AsyncLogger) Append(e *Event) {\n\tif c.Level.Enable(e.Level) {",
  "func (c *AsyncLogger) Append(e *Event) {\n\tif c.Level.Enable(e.Level) || true {")])
v("C01", "console-append-ungated", "break", ["C01.gate-logger:(*ConsoleLogger).Append"], [("plugin_logger.go",
  "func (c *ConsoleLogger) Append(e *Event) {\n\tif c.Level.Enable(e.Level) {\n\t\tc.ConsoleAppender.Append(e)\n\t}\n}",
  "func (c *ConsoleLogger) Append(e *Event) {\n\tc.ConsoleAppender.Append(e)\n}")])
v("C01", "write-fanout-ungated", "break", ["C01.gate-ref"], [("plugin_logger.go",
  "func (c *AppenderRefs) writeToAppenders(l Level, b []byte) {\n\tfor _, r := range c.AppenderRefs {\n\t\tif r.Level.Enable(l) {\n\t\t\tr.Write(b)\n\t\t}\n\t}\n}",
  "func (c *AppenderRefs) writeToAppenders(l Level, b []byte) {\n\tfor _, r := range c.AppenderRefs {\n\t\tr.Write(b)\n\t}\n}")])
v("C01", "loop-gate-removed-ref-gate-stays", "keep", [], [("plugin_logger.go",
  "func (c *AppenderRefs) sendToAppenders(e *Event) {\n\tfor _, r := range c.AppenderRefs {\n\t\tif r.Level.Enable(e.Level) {\n\t\t\tr.Append(e)\n\t\t}\n\t}\n}",
  "func (c *AppenderRefs) sendToAppenders(e *Event) {\n\tfor _, r := range c.AppenderRefs {\n\t\tr.Append(e)\n\t}\n}")])
v("C01", "layout-path-wrong-level", "break", ["C01.gate-ref"], [("plugin_logger.go",
  "\t\t\tb := c.Layout.ToBytes(e)\n\t\t\tc.writeToAppenders(e.Level, b)",
  "\t\t\tb := c.Layout.ToBytes(e)\n\t\t\tc.writeToAppenders(InfoLevel, b)")])
v("C01", "parse-upper-not-uppercased", "break", ["C01.parse"], [("log_level.go",
  "maxLevel, ok = levelRegistry[strings.ToUpper(ss[1])]",
  "maxLevel, ok = levelRegistry[ss[1]]")])
v("C01", "parse-parts-swapped", "break", ["C01.parse"], [("log_level.go",
  "minLevel, ok = levelRegistry[strings.ToUpper(ss[0])]",
  "minLevel, ok = levelRegistry[strings.ToUpper(ss[len(ss)-1])]")])
v("C01", "chain-non-strict", "break", ["C01.chain"], [("plugin_logger.go",
  "if c.AppenderRefs[j].Level.MinLevel.code > c.AppenderRefs[i-1].Level.MinLevel.code {",
  "if c.AppenderRefs[j].Level.MinLevel.code >= c.AppenderRefs[i-1].Level.MinLevel.code {")])
v("C01", "chain-not-equal", "keep", [], [("plugin_logger.go",
  "if c.AppenderRefs[j].Level.MinLevel.code > c.AppenderRefs[i-1].Level.MinLevel.code {",
  "if c.AppenderRefs[j].Level.MinLevel.code != c.AppenderRefs[i-1].Level.MinLevel.code {")])
v("C01", "wf-starts-at-error", "break", ["C01.split"], [("plugin_logger.go",
  "\t\t\tLevel: LevelRange{\n\t\t\t\tMinLevel: normalMaxLevel,\n\t\t\t\tMaxLevel: f.Level.MaxLevel,",
  "\t\t\tLevel: LevelRange{\n\t\t\t\tMinLevel: ErrorLevel,\n\t\t\t\tMaxLevel: f.Level.MaxLevel,")])
v("C01", "recheck-in-recorder-removed", "keep", [], [("log.go",
  "\t// Step 1: check if logging is enabled for this level.\n\tif !logger.GetLevel().Enable(level) {\n\t\treturn\n\t}\n",
  "")])

v("C01", "gate-helper-extracted", "keep", [], [("plugin_logger.go",
  "func (c *SyncLogger) Append(e *Event) {\n\tif c.Level.Enable(e.Level) {",
  "func (c *LoggerBase) enabled(e *Event) bool { return c.Level.Enable(e.Level) }\n\nfunc (c *SyncLogger) Append(e *Event) {\n\tif c.enabled(e) {"),
  ("plugin_logger.go", "func (c *AsyncLogger) Append(e *Event) {\n\tif c.Level.Enable(e.Level) {", "func (c *AsyncLogger) Append(e *Event) {\n\tif c.enabled(e) {")])
v("C04", "gate-helper-extracted", "keep", [], [("plugin_logger.go",
  "func (c *AsyncLogger) Append(e *Event) {\n\tif c.Level.Enable(e.Level) {",
  "func (c *LoggerBase) enabled(e *Event) bool { return c.Level.Enable(e.Level) }\n\nfunc (c *AsyncLogger) Append(e *Event) {\n\tif c.enabled(e) {")])

# ---------------------------------------------------------------- C02
# behaviour-preserving after all: Destroy unbinds every tag, so a tag is never still bound when a Refresh gets past its guard
v("C02", "rebind-only-unbound", "keep", [], [("log_refresh.go",
  "\tfor tag, obj := range tagRegistry {\n\t\tobj.logger = findLoggerForTag(tag)\n\t}",
  "\tfor tag, obj := range tagRegistry {\n\t\tif obj.logger == nil {\n\t\t\tobj.logger = findLoggerForTag(tag)\n\t\t}\n\t}")])
v("C02", "matcher-falls-back-to-default", "break", ["C02.result"], [("log_refresh.go",
  "\t\tif i <= 0 {\n\t\t\treturn cRoot\n\t\t}",
  "\t\tif i <= 0 {\n\t\t\treturn defaultLogger\n\t\t}")])
v("C02", "duplicate-tag-not-detected", "break", ["C02.conflict"], [("log_refresh.go",
  "\t\t\tif l, ok := cTags[strTag]; ok && l != logger {\n\t\t\t\terr = errutil.Explain(nil, \"tag '%s' already config in logger %s\", strTag, l)\n\t\t\t\treturn errutil.Stack(err, \"create logger %s error\", name)\n\t\t\t}\n",
  "")])
v("C02", "wildcard-check-dropped", "break", ["C02.validate:bad-wildcard"], [("log_refresh.go",
  "\t\t\tif strings.Contains(tag, \"*\") {\n\t\t\t\tif !strings.HasSuffix(tag, \"_*\") {\n\t\t\t\t\terr = errutil.Explain(nil, \"tag '%s' is invalid\", tag)\n\t\t\t\t\treturn errutil.Stack(err, \"create logger %s error\", name)\n\t\t\t\t}\n\t\t\t}\n",
  "")])

# ---------------------------------------------------------------- C03
v("C03", "return-pooled-bytes", "break", ["C03.alias:(*TextLayout).ToBytes"], [("plugin_layout.go",
  "\tenc.AppendEncoderEnd()\n\n\tbuf.WriteByte('\\n')\n\t// The buffer goes back to the pool when this function returns,\n\t// so the caller must get its own copy of the bytes.\n\treturn bytes.Clone(buf.Bytes())\n}\n\n// JSONLayout",
  "\tenc.AppendEncoderEnd()\n\n\tbuf.WriteByte('\\n')\n\treturn buf.Bytes()\n}\n\n// JSONLayout")])
v("C03", "copy-with-append", "keep", [], [("plugin_layout.go",
  "\treturn bytes.Clone(buf.Bytes())\n}\n\n// JSONLayout",
  "\treturn append([]byte(nil), buf.Bytes()...)\n}\n\n// JSONLayout")])
v("C03", "newline-second-write", "break", ["C03.single-write:(*FileAppender).Write"], [("plugin_appender.go",
  "func (c *FileAppender) Write(b []byte) {\n\t_, _ = c.file.Write(b)\n}",
  "func (c *FileAppender) Write(b []byte) {\n\t_, _ = c.file.Write(b[:len(b)-1])\n\t_, _ = c.file.Write([]byte{'\\n'})\n}")])
v("C03", "write-result-named", "keep", [], [("plugin_appender.go",
  "func (c *FileAppender) Write(b []byte) {\n\t_, _ = c.file.Write(b)\n}",
  "func (c *FileAppender) Write(b []byte) {\n\tn, err := c.file.Write(b)\n\t_, _ = n, err\n}")])
v("C03", "putevent-before-fanout", "break", ["C03.event:(*SyncLogger).Append"], [("plugin_logger.go",
  "func (c *SyncLogger) Append(e *Event) {\n\tif c.Level.Enable(e.Level) {\n\t\tif c.Layout == nil {\n\t\t\tc.sendToAppenders(e)",
  "func (c *SyncLogger) Append(e *Event) {\n\tif c.Level.Enable(e.Level) {\n\t\tif c.Layout == nil {\n\t\t\tdefer c.sendToAppenders(e)\n\t\t\tPutEvent(e)\n\t\t\treturn")])
v("C03", "layout-caches-in-field", "break", ["C03.no-shared-writes"], [("plugin_layout.go",
  "type BaseLayout struct {\n\tFileLineLength int `PluginAttribute:\"fileLineLength,default=48\"`\n}",
  "type BaseLayout struct {\n\tFileLineLength int `PluginAttribute:\"fileLineLength,default=48\"`\n\tlastFileLine   string\n}"),
  ("plugin_layout.go", "\t\tfileLine = \"...\" + fileLine[n-max(c.FileLineLength-3, 0):]\n\t}\n\treturn fileLine",
   "\t\tfileLine = \"...\" + fileLine[n-max(c.FileLineLength-3, 0):]\n\t}\n\tc.lastFileLine = fileLine\n\treturn c.lastFileLine")])
v("C03", "o-trunc", "break", ["C03.append-flag"], [("plugin_appender.go",
  "const fileFlag = os.O_WRONLY | os.O_CREATE | os.O_APPEND\n\tfileName := filepath.Join(c.FileDir, c.FileName)",
  "const fileFlag = os.O_WRONLY | os.O_CREATE | os.O_TRUNC\n\tfileName := filepath.Join(c.FileDir, c.FileName)")])

# ---------------------------------------------------------------- C04
v("C04", "discard-not-counted", "break", ["C04.producer"], [("plugin_logger.go",
  "\tcase BufferFullPolicyDiscard:\n\t\tatomic.AddInt64(&c.discardCounter, 1)\n",
  "\tcase BufferFullPolicyDiscard:\n")])
v("C04", "oldest-removed-not-counted", "break", ["C04.producer"], [("plugin_logger.go",
  "\t\t\t\tcase x := <-c.buf:\n\t\t\t\t\tatomic.AddInt64(&c.discardCounter, 1)\n",
  "\t\t\t\tcase x := <-c.buf:\n")])
v("C04", "worker-skips-bytes", "break", ["C04.worker"], [("plugin_logger.go",
  "\t\t\tcase []byte:\n\t\t\t\tc.writeRawToAppenders(x)\n",
  "\t\t\tcase []byte:\n\t\t\t\tif len(x) > 0 && x[0] != 0 {\n\t\t\t\t\tc.writeRawToAppenders(x)\n\t\t\t\t}\n")])
v("C04", "counter-non-atomic", "break", ["C04.counter"], [("plugin_logger.go",
  "func (c *AsyncLogger) GetDiscardCounter() int64 {\n\treturn atomic.LoadInt64(&c.discardCounter)\n}",
  "func (c *AsyncLogger) GetDiscardCounter() int64 {\n\treturn c.discardCounter\n}")])
v("C04", "policy-if-else", "keep", [], [("plugin_logger.go",
  "\tcase BufferFullPolicyBlock:\n\t\tc.buf <- v // Block until space is available\n",
  "\tcase BufferFullPolicyBlock:\n\t\tif true {\n\t\t\tc.buf <- v // Block until space is available\n\t\t}\n")])

# ---------------------------------------------------------------- C05
v("C05", "stop-does-not-wait", "break", ["C05.stop-signal"], [("plugin_logger.go",
  "func (c *AsyncLogger) Stop() {\n\tc.buf <- c.stop\n\t<-c.wait\n\tclose(c.buf)\n}",
  "func (c *AsyncLogger) Stop() {\n\tc.buf <- c.stop\n\tclose(c.buf)\n}")])
v("C05", "stop-close-and-drain", "keep", [], [("plugin_logger.go",
  "func (c *AsyncLogger) Stop() {\n\tc.buf <- c.stop\n\t<-c.wait\n\tclose(c.buf)\n}",
  "func (c *AsyncLogger) Stop() {\n\tclose(c.buf)\n\t<-c.wait\n}")])
v("C05", "destroy-appenders-first", "break", ["C05.destroy-order"], [("log_refresh.go",
  "\tfor _, l := range global.loggers {\n\t\tl.Stop()\n\t}\n\tfor _, a := range global.appenders {\n\t\ta.Stop()\n\t}",
  "\tfor _, a := range global.appenders {\n\t\ta.Stop()\n\t}\n\tfor _, l := range global.loggers {\n\t\tl.Stop()\n\t}")])
v("C05", "inner-logger-not-started", "break", ["C05.owned-lifecycle:RollingFileLogger.logger"], [("plugin_logger.go",
  "\treturn f.logger.Start()\n}", "\treturn nil\n}")])
v("C05", "oldfile-not-closed-in-stop", "break", ["C05.close-all:RollingFileAppender.oldFile"], [("plugin_appender.go",
  "func (c *RollingFileAppender) Stop() {\n\tif file := c.oldFile.Swap(nil); file != nil {\n\t\t_ = file.Sync()\n\t\t_ = file.Close()\n\t}\n",
  "func (c *RollingFileAppender) Stop() {\n")])
v("C05", "rotation-leaks-old-old", "break", ["C05.fd-bound"], [("plugin_appender.go",
  "\t// Close the previous rotation file\n\tif file := c.oldFile.Swap(nil); file != nil {\n\t\t_ = file.Sync()\n\t\t_ = file.Close()\n\t}\n\n\tfilePath, file, err := c.createFile",
  "\tfilePath, file, err := c.createFile")])
v("C05", "sync-removed", "keep", [], [("plugin_appender.go",
  "func (c *FileAppender) Stop() {\n\tif c.file != nil {\n\t\t_ = c.file.Sync()\n\t\t_ = c.file.Close()",
  "func (c *FileAppender) Stop() {\n\tif c.file != nil {\n\t\t_ = c.file.Close()")])

# ---------------------------------------------------------------- C06
v("C06", "policies-swapped", "break", ["C06.policy"], [("plugin_logger.go",
  "\tswitch c.BufferFullPolicy {\n\tcase BufferFullPolicyDiscardOldest:", "\tswitch c.BufferFullPolicy {\n\tcase BufferFullPolicyDiscard:"),
  ("plugin_logger.go", "\tcase BufferFullPolicyDiscard:\n\t\tatomic.AddInt64(&c.discardCounter, 1)\n\t\tif e, ok := v.(*Event); ok {",
   "\tcase BufferFullPolicyDiscardOldest:\n\t\tatomic.AddInt64(&c.discardCounter, 1)\n\t\tif e, ok := v.(*Event); ok {")])
v("C06", "second-consumer", "break", ["C06.single-consumer"], [("plugin_logger.go",
  "func (c *AsyncLogger) GetDiscardCounter() int64 {\n\treturn atomic.LoadInt64(&c.discardCounter)\n}",
  "func (c *AsyncLogger) GetDiscardCounter() int64 {\n\treturn atomic.LoadInt64(&c.discardCounter)\n}\n\n// Drain removes one pending item.\nfunc (c *AsyncLogger) Drain() any {\n\treturn <-c.buf\n}")])

# ---------------------------------------------------------------- C07
v("C07", "separator-misses-array-end", "break", ["C07.fsm"], [("field_encoder.go",
  "if enc.last == JSONTokenObjectEnd || enc.last == JSONTokenArrayEnd || enc.last == JSONTokenValue {",
  "if enc.last == JSONTokenObjectEnd || enc.last == JSONTokenValue {")])
v("C07", "object-end-keeps-state", "break", ["C07.fsm"], [("field_encoder.go",
  "func (enc *JSONEncoder) AppendObjectEnd() {\n\tenc.last = JSONTokenObjectEnd\n", "func (enc *JSONEncoder) AppendObjectEnd() {\n")])
v("C07", "separator-as-switch", "keep", [], [("field_encoder.go",
  "\tif enc.last == JSONTokenObjectEnd || enc.last == JSONTokenArrayEnd || enc.last == JSONTokenValue {\n\t\tenc.buf.WriteByte(',')\n\t}",
  "\tswitch enc.last {\n\tcase JSONTokenObjectEnd, JSONTokenArrayEnd, JSONTokenValue:\n\t\tenc.buf.WriteByte(',')\n\tdefault:\n\t}")])
v("C07", "any-uint64-as-int", "break", ["C07.dispatch:Any"], [("field.go",
  "\tcase uint64:\n\t\treturn Uint(key, val)", "\tcase uint64:\n\t\treturn Int(key, int64(val))")])
v("C07", "encode-uint-as-int", "break", ["C07.dispatch"], [("field.go",
  "\t\tenc.AppendUint64(f.Num)", "\t\tenc.AppendInt64(int64(f.Num))")])
v("C07", "float-precision-6", "break", ["C07.numbers"], [("field_encoder.go",
  "\t}\n\tenc.buf.WriteString(strconv.FormatFloat(v, 'f', -1, 64))\n}\n\n// AppendString writes a string value with proper escaping.",
  "\t}\n\tenc.buf.WriteString(strconv.FormatFloat(v, 'f', 6, 64))\n}\n\n// AppendString writes a string value with proper escaping.")])
v("C07", "nonfinite-only-nan", "break", ["C07.nonfinite"], [("field_encoder.go",
  "if math.IsNaN(v) || math.IsInf(v, 0) {", "if math.IsNaN(v) {")])
v("C07", "nonfinite-as-switch", "keep", [], [("field_encoder.go",
  "if math.IsNaN(v) || math.IsInf(v, 0) {", "if v != v || math.IsInf(v, 1) || math.IsInf(v, -1) {")])
v("C07", "key-written-raw", "break", ["C07.fsm", "C09.use"], [("field_encoder.go",
  "\tenc.buf.WriteByte('\"')\n\tWriteLogString(enc.buf, key)\n\tenc.buf.WriteByte('\"')\n\tenc.buf.WriteByte(':')",
  "\tenc.buf.WriteByte('\"')\n\tenc.buf.WriteString(key)\n\tenc.buf.WriteByte('\"')\n\tenc.buf.WriteByte(':')")])
v("C07", "ctx-fields-after-fields", "break", ["C07.order"], [("plugin_layout.go",
  "\tEncodeFields(enc, headers)\n\tEncodeFields(enc, e.CtxFields)\n\tEncodeFields(enc, e.Fields)",
  "\tEncodeFields(enc, headers)\n\tEncodeFields(enc, e.Fields)\n\tEncodeFields(enc, e.CtxFields)")])

# ---------------------------------------------------------------- C08
v("C08", "uint-delegates-to-int", "break", ["C08.delegate"], [("field_encoder.go",
  "\t\tenc.jsonEncoder.AppendUint64(v)", "\t\tenc.jsonEncoder.AppendInt64(int64(v))")])
v("C08", "missing-return-after-delegation", "break", ["C08.delegate"], [("field_encoder.go",
  "\t\tenc.jsonEncoder.AppendBool(v)\n\t\treturn\n", "\t\tenc.jsonEncoder.AppendBool(v)\n")])
v("C08", "text-float-g", "break", ["C08.tokens"], [("field_encoder.go",
  "\t\treturn\n\t}\n\tenc.buf.WriteString(strconv.FormatFloat(v, 'f', -1, 64))\n}\n\n// AppendString appends a string value, using JSON encoder if nested.",
  "\t\treturn\n\t}\n\tenc.buf.WriteString(strconv.FormatFloat(v, 'g', -1, 64))\n}\n\n// AppendString appends a string value, using JSON encoder if nested.")])
v("C08", "width-old-formula", "break", ["C08.width"], [("plugin_layout.go",
  "fileLine[n-max(c.FileLineLength-3, 0):]", "fileLine[n-c.FileLineLength+3:]")])
v("C08", "width-max-1", "break", ["C08.width"], [("plugin_layout.go",
  "fileLine[n-max(c.FileLineLength-3, 0):]", "fileLine[n-max(c.FileLineLength-3, -1):]")])
v("C08", "width-if-form", "keep", [], [("plugin_layout.go",
  "\t\tfileLine = \"...\" + fileLine[n-max(c.FileLineLength-3, 0):]",
  "\t\tkeep := c.FileLineLength - 3\n\t\tif keep < 0 {\n\t\t\tkeep = 0\n\t\t}\n\t\tfileLine = \"...\" + fileLine[n-keep:]")])
v("C08", "time-layout-changed", "break", ["C08.header"], [("plugin_layout.go",
  "\tbuf.WriteString(e.Time.Format(\"2006-01-02T15:04:05.000\"))", "\tbuf.WriteString(e.Time.Format(\"2006-01-02 15:04:05.000\"))")])
v("C08", "no-reset-at-depth0", "break", ["C08.delegate"], [("field_encoder.go",
  "\tenc.jsonEncoder.AppendArrayEnd()\n\tif enc.jsonDepth == 0 {\n\t\tenc.jsonEncoder.Reset()\n\t}",
  "\tenc.jsonEncoder.AppendArrayEnd()")])

# ---------------------------------------------------------------- C09
v("C09", "newline-escaped-as-r", "break", ["C09.escapes"], [("field_encoder.go",
  "\tcase '\\n':\n\t\tbuf.WriteByte('\\\\')\n\t\tbuf.WriteByte('n')", "\tcase '\\n':\n\t\tbuf.WriteByte('\\\\')\n\t\tbuf.WriteByte('r')")])
v("C09", "raw-branch-widened", "break", ["C09.raw"], [("field_encoder.go",
  "if 0x20 <= b && b != '\\\\' && b != '\"' {", "if 0x1F <= b && b != '\\\\' && b != '\"' {")])
v("C09", "hex-table-short", "break", ["C09"], [("field_encoder.go",
  "const _hex = \"0123456789abcdef\"", "const _hex = \"0123456789abcde\"")])
v("C09", "size-test-dropped", "break", ["C09.utf8"], [("field_encoder.go",
  "if r == utf8.RuneError && size == 1 {", "if r == utf8.RuneError {")])
v("C09", "quote-not-escaped", "break", ["C09"], [("field_encoder.go",
  "if 0x20 <= b && b != '\\\\' && b != '\"' {", "if 0x20 <= b && b != '\\\\' {")])
v("C09", "range-as-lt", "keep", [], [("field_encoder.go",
  "if 0x20 <= b && b != '\\\\' && b != '\"' {", "if b > 0x1F && !(b == '\\\\' || b == '\"') {")])

# ---------------------------------------------------------------- C10
v("C10", "lazy-before-gate", "break", ["C10.gated:Trace"], [("log.go",
  "func Trace(ctx context.Context, tag *Tag, fn func() []Field) {\n\tif l := getLogger(tag); l.GetLevel().Enable(TraceLevel) {\n\t\trecord(ctx, TraceLevel, tag.tag, l, 1, fn()...)\n\t}\n}",
  "func Trace(ctx context.Context, tag *Tag, fn func() []Field) {\n\tfields := fn()\n\tif l := getLogger(tag); l.GetLevel().Enable(TraceLevel) {\n\t\trecord(ctx, TraceLevel, tag.tag, l, 1, fields...)\n\t}\n}")])
v("C10", "hook-called-twice", "break", ["C10.once"], [("log.go",
  "\tif StringFromContext != nil {\n\t\tctxString = StringFromContext(ctx)\n\t}",
  "\tif StringFromContext != nil && StringFromContext(ctx) != \"\" {\n\t\tctxString = StringFromContext(ctx)\n\t}")])
v("C10", "hook-background-ctx", "break", ["C10.gated", "C10.record"], [("log.go",
  "\t\tctxFields = FieldsFromContext(ctx)", "\t\tctxFields = FieldsFromContext(context.Background())")])
v("C10", "hooks-before-recheck", "keep", [], [("log.go",
  "\t// Step 1: check if logging is enabled for this level.\n\tif !logger.GetLevel().Enable(level) {\n\t\treturn\n\t}\n",
  "")])

# ---------------------------------------------------------------- C11
v("C11", "fast-skip-restored", "break", ["C11.same", "C11.fast"], [("log.go",
  "file, line = FastCaller(skip + 1)", "file, line = FastCaller(skip)")])
v("C11", "entry-passes-2", "break", ["C11.default:Infof"], [("log.go",
  "\t\trecord(ctx, InfoLevel, tag.tag, l, 1, Msgf(format, args...))", "\t\trecord(ctx, InfoLevel, tag.tag, l, 2, Msgf(format, args...))")])
v("C11", "callers-skip-3", "break", ["C11.same"], [("caller.go",
  "n := runtime.Callers(skip+2, rpc[:])", "n := runtime.Callers(skip+3, rpc[:])")])

# ---------------------------------------------------------------- C12
v("C12", "raw-gate-restored", "break", ["C12.ungated", "C12.every-ref"], [("plugin_logger.go",
  "func (c *AppenderRefs) writeRawToAppenders(b []byte) {\n\tfor _, r := range c.AppenderRefs {\n\t\tr.Write(b)\n\t}\n}",
  "func (c *AppenderRefs) writeRawToAppenders(b []byte) {\n\tfor _, r := range c.AppenderRefs {\n\t\tif r.Level.Enable(InfoLevel) {\n\t\t\tr.Write(b)\n\t\t}\n\t}\n}")])
v("C12", "clone-removed", "break", ["C12.no-retain"], [("plugin_logger.go",
  "\tb = bytes.Clone(b)\n", "\t_ = bytes.Clone\n")])
v("C12", "clone-by-append", "keep", [], [("plugin_logger.go",
  "\tb = bytes.Clone(b)\n", "\tb = append([]byte(nil), b...)\n\t_ = bytes.Clone\n")])
v("C12", "trailing-byte-dropped", "break", ["C12.verbatim"], [("plugin_logger.go",
  "func (c *SyncLogger) Write(b []byte) {\n\tc.writeRawToAppenders(b)\n}",
  "func (c *SyncLogger) Write(b []byte) {\n\tc.writeRawToAppenders(b[:len(b):len(b)][:max(len(b)-1, 0)])\n}")])
v("C12", "handle-always-new", "break", ["C12.handle"], [("log_logger.go",
  "\tm, ok := loggerMap[name]\n\tif !ok {\n\t\tm = &LoggerWrapper{name: name}\n\t\tloggerMap[name] = m\n\t}\n\treturn m",
  "\tm := &LoggerWrapper{name: name}\n\tloggerMap[name] = m\n\treturn m")])
v("C12", "len-short", "break", ["C12.len"], [("log_logger.go",
  "\treturn len(b), nil\n}", "\treturn len(b) - 1, nil\n}")])

# ---------------------------------------------------------------- C13
v("C13", "rolling-o-trunc", "break", ["C13.flags"], [("plugin_appender.go",
  "const fileFlag = os.O_CREATE | os.O_WRONLY | os.O_APPEND", "const fileFlag = os.O_CREATE | os.O_WRONLY | os.O_TRUNC")])
v("C13", "rotate-after-load", "break", ["C13.rotate-first"], [("plugin_appender.go",
  "\tc.rotate()\n\tif file := c.file.Load(); file != nil {\n\t\t_, _ = file.Write(b)\n\t}",
  "\tfile := c.file.Load()\n\tc.rotate()\n\tif file != nil {\n\t\t_, _ = file.Write(b)\n\t}")])
v("C13", "cas-removed", "break", ["C13.cas"], [("plugin_appender.go",
  "\tif !c.currTime.CompareAndSwap(oldTime, nowTime) {\n\t\treturn\n\t}\n", "\tc.currTime.Store(nowTime)\n")])
v("C13", "new-file-not-published", "break", ["C13.cas"], [("plugin_appender.go",
  "\tc.file.Store(file)\n\tc.currTime.Store(nowTime)\n\n\t// Cleanup", "\t_ = file\n\tc.currTime.Store(nowTime)\n\n\t// Cleanup")])
v("C13", "name-from-second-clock", "break", ["C13.name"], [("plugin_appender.go",
  "\tfilePath, file, err := c.createFile(c.Rotation.Format(now))\n\tif err != nil {\n\t\terr = errutil.Stack",
  "\tfilePath, file, err := c.createFile(c.Rotation.Format(time.Now()))\n\tif err != nil {\n\t\terr = errutil.Stack")])
v("C13", "flags-inlined", "keep", [], [("plugin_appender.go",
  "\tconst fileFlag = os.O_CREATE | os.O_WRONLY | os.O_APPEND\n\tfile, err := os.OpenFile(filePath, fileFlag, 0644)",
  "\tfile, err := os.OpenFile(filePath, os.O_APPEND|os.O_WRONLY|os.O_CREATE, 0644)")])

# ---------------------------------------------------------------- C14
v("C14", "suffix-test-removed", "break", ["C14.guards"], [("plugin_appender.go",
  "\t\tif len(suffix) != 14 {\n\t\t\tcontinue\n\t\t}\n\t\tif _, err := time.Parse(\"20060102150405\", suffix); err != nil {\n\t\t\tcontinue\n\t\t}\n",
  "\t\t_ = suffix\n")])
v("C14", "length-test-removed", "break", ["C14.guards"], [("plugin_appender.go",
  "\t\tif len(suffix) != 14 {\n\t\t\tcontinue\n\t\t}\n", "")])
v("C14", "after-for-before", "break", ["C14.age"], [("plugin_appender.go",
  "if info.ModTime().Before(expiration) {", "if info.ModTime().After(expiration) {")])
v("C14", "minutes-for-hours", "break", ["C14.age"], [("plugin_appender.go",
  "expiration := time.Now().Add(-time.Duration(c.MaxAge) * time.Hour)", "expiration := time.Now().Add(-time.Duration(c.MaxAge) * time.Minute)")])
v("C14", "second-remove-in-stop", "break", ["C14.only-here"], [("plugin_appender.go",
  "func (c *FileAppender) Stop() {\n\tif c.file != nil {", "func (c *FileAppender) Stop() {\n\tif c.FileName == \"\" {\n\t\t_ = os.Remove(c.FileDir)\n\t}\n\tif c.file != nil {")])
v("C14", "since-form", "keep", [], [("plugin_appender.go",
  "\t\tif info.ModTime().Before(expiration) {", "\t\tif time.Since(info.ModTime()) > time.Duration(c.MaxAge)*time.Hour {"),
  ("plugin_appender.go", "\texpiration := time.Now().Add(-time.Duration(c.MaxAge) * time.Hour)\n", "")])
v("C14", "synchronous-cleanup", "break", ["C14.async", "C19.retention-async"], [("plugin_appender.go",
  "\tgo c.clearExpiredFiles()", "\tc.clearExpiredFiles()")])

# ---------------------------------------------------------------- C15
v("C15", "default-arm-restored", "break", ["C15.exhaustive"], [("log_refresh.go",
  "\t\tdefault:\n\t\t\t// Console, File, RollingFile and Discard loggers write\n\t\t\t// directly and have no appender references to resolve.\n\t\t\treturn nil\n\t\t}",
  "\t\tdefault: // for linter\n\t\t}")])
v("C15", "layout-default-unregistered", "break", ["C15.registry:element"], [("plugin_appender.go",
  "type ConsoleAppender struct {\n\tAppenderBase\n\tLayout Layout `PluginElement:\"Layout,default=TextLayout\"`",
  "type ConsoleAppender struct {\n\tAppenderBase\n\tLayout Layout `PluginElement:\"Layout,default=PlainLayout\"`")])
v("C15", "attribute-without-converter", "break", ["C15.attributes"], [("plugin_logger.go",
  "\tMaxAge   int32        `PluginAttribute:\"maxAge,default=168\"`\n\n\t// Async",
  "\tMaxAge   int32        `PluginAttribute:\"maxAge,default=168\"`\n\tGrace    time.Duration `PluginAttribute:\"grace,default=1m\"`\n\n\t// Async"),
  ("plugin_logger.go", "import (\n\t\"bytes\"\n\t\"sort\"", "import (\n\t\"bytes\"\n\t\"sort\"\n\t\"time\"")])
v("C15", "camel-dropped-in-lookup", "break", ["C15.keys"], [("plugin.go",
  "\tkey := prefix + \".\" + toCamelKey(attrName)", "\tkey := prefix + \".\" + attrName")])
v("C15", "converter-error-ignored", "break", ["C15"], [("plugin.go",
  "\t\t\t\tif err := s.Set(typeKey, typeClass, 0); err != nil {\n\t\t\t\t\treturn err // Should never fail\n\t\t\t\t}",
  "\t\t\t\ts.Set(typeKey, typeClass, 0)")])
v("C15", "buffer-size-unchecked", "break", ["C15.chan-size"], [("plugin_logger.go",
  "\tif c.BufferSize < 100 {\n\t\treturn errutil.Explain(nil, \"bufferSize is too small\")\n\t}\n", "")])
v("C15", "bad-int-default", "break", ["C15.attributes"], [("plugin_logger.go",
  "BufferSize       int              `PluginAttribute:\"bufferSize,default=10000\"`\n\tBufferFullPolicy BufferFullPolicy `PluginAttribute:\"bufferFullPolicy,default=Discard\"`\n\n\tbuf",
  "BufferSize       int              `PluginAttribute:\"bufferSize,default=10k\"`\n\tBufferFullPolicy BufferFullPolicy `PluginAttribute:\"bufferFullPolicy,default=Discard\"`\n\n\tbuf")])
v("C15", "bad-policy-default", "break", ["C15.attributes"], [("plugin_logger.go",
  "BufferFullPolicy BufferFullPolicy `PluginAttribute:\"bufferFullPolicy,default=Discard\"`\n\n\tbuf",
  "BufferFullPolicy BufferFullPolicy `PluginAttribute:\"bufferFullPolicy,default=discard\"`\n\n\tbuf")])

# ---------------------------------------------------------------- C16
v("C16", "unbind-removed", "break", ["C16.unbind"], [("log_refresh.go",
  "\tfor _, tag := range tagRegistry {\n\t\ttag.logger = nil\n\t}\n", "")])
v("C16", "handle-fallback-removed", "break", ["C16.nil-safe"], [("log_logger.go",
  "\tif l := m.logger; l != nil {\n\t\tl.Write(b)\n\t} else {\n\t\tdefaultLogger.Write(b)\n\t}", "\tm.logger.Write(b)")])
v("C16", "destroy-keeps-flag", "break", ["C16.destroy"], [("log_refresh.go",
  "\tglobal.appenders = nil\n\tglobal.init = false", "\tglobal.appenders = nil")])
v("C16", "generated-appender-without-layout", "break", ["C16.iface-fields"], [("plugin_logger.go",
  "\t\t\tAppender: &RollingFileAppender{\n\t\t\t\tLayout:   layout,\n\t\t\t\tFileDir:  f.FileDir,\n\t\t\t\tFileName: f.FileName + \".wf\",",
  "\t\t\tAppender: &RollingFileAppender{\n\t\t\t\tFileDir:  f.FileDir,\n\t\t\t\tFileName: f.FileName + \".wf\",")])
# behaviour-preserving after all: storing true into a flag that is already true changes nothing
v("C16", "once-guard-after-effects", "keep", [], [("log_refresh.go",
  "\t// Ensure this refresh is executed only once\n\tif global.init {\n\t\treturn errutil.Explain(nil, \"log refresh already done\")\n\t}\n\tglobal.init = true\n",
  "\twasInit := global.init\n\tglobal.init = true\n\tif wasInit {\n\t\treturn errutil.Explain(nil, \"log refresh already done\")\n\t}\n")])
v("C16", "panic-on-hot-path", "break", ["C16.no-panic-hot", "C19"], [("plugin_appender.go",
  "func (c *FileAppender) Write(b []byte) {\n\t_, _ = c.file.Write(b)\n}",
  "func (c *FileAppender) Write(b []byte) {\n\tif _, err := c.file.Write(b); err != nil {\n\t\tpanic(err)\n\t}\n}")])
v("C16", "unbind-before-stop", "keep", [], [("log_refresh.go",
  "\tfor _, l := range global.loggers {\n\t\tl.Stop()\n\t}\n\tfor _, a := range global.appenders {\n\t\ta.Stop()\n\t}\n\t// Unbind tags and logger handles: the loggers they point to are\n\t// stopped, so logging falls back to the default logger from now on.\n\tfor _, tag := range tagRegistry {\n\t\ttag.logger = nil\n\t}\n\tfor _, l := range loggerMap {\n\t\tl.logger = nil\n\t}\n",
  "\tfor _, tag := range tagRegistry {\n\t\ttag.logger = nil\n\t}\n\tfor _, l := range loggerMap {\n\t\tl.logger = nil\n\t}\n\tfor _, l := range global.loggers {\n\t\tl.Stop()\n\t}\n\tfor _, a := range global.appenders {\n\t\ta.Stop()\n\t}\n")])

# ---------------------------------------------------------------- C17
# the named result is written only by the return statements, so it is nil whenever a panic is in flight: dropping the
# reset changes nothing (the evaluation of Parse through the ANTLR runtime showed this; it used to be listed as a break)
v("C17", "recover-without-redundant-reset", "keep", [], [("expr/parse.go",
  "\t\tif r := recover(); r != nil {\n\t\t\tret = nil\n", "\t\tif r := recover(); r != nil {\n")])
# ... but with the result published before the walk, the missing reset hands out a partial map together with the error
v("C17", "recover-keeps-partial-map", "break", ["C17"], [("expr/parse.go",
  "\t\tif r := recover(); r != nil {\n\t\t\tret = nil\n", "\t\tif r := recover(); r != nil {\n"),
  ("expr/parse.go", "\tantlr.ParseTreeWalkerDefault.Walk(l, p.Root())", "\tret = l.Result\n\tantlr.ParseTreeWalkerDefault.Walk(l, p.Root())")])
v("C17", "unquote-n-as-r", "break", ["C17.escapes"], [("expr/parse.go",
  "\t\t\tcase 'n':\n\t\t\t\tc = '\\n'", "\t\t\tcase 'n':\n\t\t\t\tc = '\\r'")])
v("C17", "strconv-unquote-restored", "break", ["C17.escapes"], [("expr/parse.go",
  "\t\tl.Result[fieldKey] = unquote(ctx.Value().STRING().GetText())",
  "\t\ts, err := strconv.Unquote(ctx.Value().STRING().GetText())\n\t\tif err != nil {\n\t\t\tpanic(err)\n\t\t}\n\t\tl.Result[fieldKey] = s"),
  ("expr/parse.go", "\t\"runtime/debug\"\n\t\"strings\"", "\t\"runtime/debug\"\n\t\"strconv\"\n\t\"strings\"")])
v("C17", "go-inside-parse", "break", ["C17.no-escape"], [("expr/parse.go",
  "\tantlr.ParseTreeWalkerDefault.Walk(l, p.Root())\n", "\tdone := make(chan struct{})\n\tgo func() {\n\t\tdefer close(done)\n\t\tantlr.ParseTreeWalkerDefault.Walk(l, p.Root())\n\t}()\n\t<-done\n")])
v("C17", "float-case-dropped", "break", ["C17.alternatives"], [("expr/parse.go",
  "\tcase ctx.Value().FLOAT() != nil:\n\t\tl.Result[fieldKey] = ctx.Value().FLOAT().GetText()\n", "")])
v("C17", "map-returned-despite-error", "break", ["C17.returns"], [("expr/parse.go",
  "\tif e.Error != nil {\n\t\treturn nil, e.Error\n\t}\n\treturn l.Result, nil", "\tif e.Error != nil {\n\t\treturn l.Result, e.Error\n\t}\n\treturn l.Result, nil")])

# ---------------------------------------------------------------- C18
v("C18", "max-length-40", "break", ["C18.length"], [("log_tag.go",
  "if len(tag) < 3 || len(tag) > 36 {", "if len(tag) < 3 || len(tag) > 40 {")])
v("C18", "uppercase-accepted", "break", ["C18.alphabet"], [("log_tag.go",
  "if !(c >= 'a' && c <= 'z') && !(c >= '0' && c <= '9') && c != '_' {",
  "if !(c >= 'A' && c <= 'z') && !(c >= '0' && c <= '9') && c != '_' {")])
v("C18", "trimprefix-removed", "break", ["C18.segments"], [("log_tag.go",
  "ss := strings.Split(strings.TrimPrefix(tag, \"_\"), \"_\")", "ss := strings.Split(strings.TrimLeft(tag, \"_\"), \"_\")")])
v("C18", "store-before-validation", "break", ["C18.register"], [("log_tag.go",
  "\tif !isValidTag(tag) {\n\t\tpanic(\"invalid log tag\")\n\t}\n\tm, ok := tagRegistry[tag]\n\tif !ok {\n\t\tm = &Tag{tag: tag}\n\t\ttagRegistry[tag] = m\n\t}\n\treturn m",
  "\tm, ok := tagRegistry[tag]\n\tif !ok {\n\t\tm = &Tag{tag: tag}\n\t\ttagRegistry[tag] = m\n\t}\n\tif !isValidTag(tag) {\n\t\tpanic(\"invalid log tag\")\n\t}\n\treturn m")])
v("C18", "first-byte-skipped", "break", ["C18.coverage"], [("log_tag.go",
  "\tfor i := range len(tag) {\n\t\tc := tag[i]", "\tfor i := 1; i < len(tag); i++ {\n\t\tc := tag[i]")])
v("C18", "alphabet-as-switch", "keep", [], [("log_tag.go",
  "\t\tif !(c >= 'a' && c <= 'z') && !(c >= '0' && c <= '9') && c != '_' {\n\t\t\treturn false\n\t\t}",
  "\t\tswitch {\n\t\tcase c >= 'a' && c <= 'z', c >= '0' && c <= '9', c == '_':\n\t\tdefault:\n\t\t\treturn false\n\t\t}")])

# ---------------------------------------------------------------- C19
v("C19", "error-path-clears-file", "break", ["C19.keep-file"], [("plugin_appender.go",
  "\t\t_, _ = fmt.Fprintln(os.Stderr, err)\n\t\treturn\n\t}", "\t\t_, _ = fmt.Fprintln(os.Stderr, err)\n\t\tc.file.Store(nil)\n\t\treturn\n\t}")])
v("C19", "panic-on-create-failure", "break", ["C19"], [("plugin_appender.go",
  "\t\t_, _ = fmt.Fprintln(os.Stderr, err)\n\t\treturn\n\t}", "\t\tpanic(err)\n\t}")])
v("C19", "error-message-changed", "keep", [], [("plugin_appender.go",
  "\t\terr = errutil.Stack(err, \"Failed to create log file %s\", filePath)\n\t\t_, _ = fmt.Fprintln(os.Stderr, err)",
  "\t\terr = errutil.Stack(err, \"cannot create log file %s\", filePath)\n\t\t_, _ = fmt.Fprintln(os.Stderr, err)")])

# ---------------------------------------------------------------- C20
v("C20", "bufio-writer-field", "break", ["C20.types:FileAppender"], [("plugin_appender.go",
  "\tfile *os.File\n}\n\n// Start opens the log file for appending.", "\tfile *os.File\n\tw    *bufio.Writer\n}\n\n// Start opens the log file for appending."),
  ("plugin_appender.go", "import (\n\t\"fmt\"", "import (\n\t\"bufio\"\n\t\"fmt\"")])
v("C20", "write-in-goroutine", "break", ["C20.direct", "C03"], [("plugin_appender.go",
  "func (c *ConsoleAppender) Write(b []byte) {\n\t_, _ = Stdout.Write(b)\n}", "func (c *ConsoleAppender) Write(b []byte) {\n\tgo func() { _, _ = Stdout.Write(b) }()\n}")])
v("C20", "stdout-buffered", "break", ["C20.console"], [("plugin_appender.go",
  "var Stdout io.Writer = os.Stdout", "var Stdout io.Writer = bufio.NewWriter(os.Stdout)"),
  ("plugin_appender.go", "import (\n\t\"fmt\"", "import (\n\t\"bufio\"\n\t\"fmt\"")])

# ---------------------------------------------------------------- behaviour-preserving refactors (keep)
v("C02", "matcher-iterative", "keep", [], [("log_refresh.go",
  "\t\tif l, ok := cTags[tag]; ok {\n\t\t\treturn l\n\t\t}\n\t\ttag, _ = strings.CutSuffix(tag, \"_*\")\n\t\ti := strings.LastIndex(tag, \"_\")\n\t\tif i <= 0 {\n\t\t\treturn cRoot\n\t\t}\n\t\ttag = strings.TrimSuffix(tag[:i], \"_\") + \"_*\"\n\t\treturn findLoggerForTag(tag)\n",
  "\t\tfor {\n\t\t\tif l, ok := cTags[tag]; ok {\n\t\t\t\treturn l\n\t\t\t}\n\t\t\ttag, _ = strings.CutSuffix(tag, \"_*\")\n\t\t\ti := strings.LastIndex(tag, \"_\")\n\t\t\tif i <= 0 {\n\t\t\t\treturn cRoot\n\t\t\t}\n\t\t\ttag = strings.TrimSuffix(tag[:i], \"_\") + \"_*\"\n\t\t}\n")])
v("C02", "validate-split-loop", "keep", [], [("log_refresh.go",
  "for tag := range strings.SplitSeq(logger.GetTags(), \",\") {",
  "for _, tag := range strings.Split(logger.GetTags(), \",\") {")])
v("C02", "validate-positive-form", "keep", [], [("log_refresh.go",
  "\t\t\tif strings.Contains(tag, \"*\") {\n\t\t\t\tif !strings.HasSuffix(tag, \"_*\") {\n\t\t\t\t\terr = errutil.Explain(nil, \"tag '%s' is invalid\", tag)\n\t\t\t\t\treturn errutil.Stack(err, \"create logger %s error\", name)\n\t\t\t\t}\n\t\t\t}\n",
  "\t\t\tif strings.Contains(tag, \"*\") && !strings.HasSuffix(tag, \"_*\") {\n\t\t\t\terr = errutil.Explain(nil, \"tag '%s' is invalid\", tag)\n\t\t\t\treturn errutil.Stack(err, \"create logger %s error\", name)\n\t\t\t}\n")])
v("C16", "flag-check-hoisted", "keep", [], [("log_refresh.go",
  "\ts, err := toStorage(data)\n\tif err != nil {\n\t\treturn errutil.Stack(err, \"toStorage error\")\n\t}\n",
  "\tif global.init {\n\t\treturn errutil.Explain(nil, \"log refresh already done\")\n\t}\n\n\ts, err := toStorage(data)\n\tif err != nil {\n\t\treturn errutil.Stack(err, \"toStorage error\")\n\t}\n")])
v("C16", "destroy-tuple-reset", "keep", [], [("log_refresh.go",
  "\tglobal.loggers = nil\n\tglobal.appenders = nil\n\tglobal.init = false\n",
  "\tglobal.loggers, global.appenders, global.init = nil, nil, false\n")])
v("C06", "worker-as-method", "keep", [], [("plugin_logger.go",
  "\t// Worker goroutine to process buffered items\n\tgo func() {\n", "\tgo c.run()\n\treturn nil\n}\n\n// run processes buffered items until the stop marker arrives.\nfunc (c *AsyncLogger) run() {\n\t{\n"),
  ("plugin_logger.go", "\t\tclose(c.wait)\n\t}()\n\treturn nil\n}", "\t\tclose(c.wait)\n\t}\n}")])
v("C05", "discard-no-return", "keep", [], [("plugin_logger.go",
  "\t\tif e, ok := v.(*Event); ok {\n\t\t\tPutEvent(e)\n\t\t}\n\t\treturn\n\tdefault: // for linter",
  "\t\tif e, ok := v.(*Event); ok {\n\t\t\tPutEvent(e)\n\t\t}\n\tdefault: // for linter")])
v("C05", "oldest-loop-return-form", "keep", [], [("plugin_logger.go",
  "\t\tvar exit bool\n\t\tfor {\n\t\t\tselect {\n\t\t\tcase c.buf <- v:\n\t\t\t\texit = true\n\t\t\tdefault:",
  "\t\tfor {\n\t\t\tselect {\n\t\t\tcase c.buf <- v:\n\t\t\t\treturn\n\t\t\tdefault:"),
  ("plugin_logger.go", "\t\t\tif exit {\n\t\t\t\tbreak\n\t\t\t}\n", "")])
v("C04", "worker-if-assert", "keep", [], [("plugin_logger.go",
  "\t\t\tswitch x := v.(type) {\n\t\t\tcase *Event:\n\t\t\t\tif c.Layout == nil {\n\t\t\t\t\tc.sendToAppenders(x)\n\t\t\t\t} else {\n\t\t\t\t\tc.writeToAppenders(x.Level, c.Layout.ToBytes(x))\n\t\t\t\t}\n\t\t\t\tPutEvent(x)\n\t\t\tcase []byte:\n\t\t\t\tc.writeRawToAppenders(x)\n\t\t\tdefault: // for linter\n\t\t\t}",
  "\t\t\tif x, ok := v.(*Event); ok {\n\t\t\t\tif c.Layout == nil {\n\t\t\t\t\tc.sendToAppenders(x)\n\t\t\t\t} else {\n\t\t\t\t\tc.writeToAppenders(x.Level, c.Layout.ToBytes(x))\n\t\t\t\t}\n\t\t\t\tPutEvent(x)\n\t\t\t} else if b, ok := v.([]byte); ok {\n\t\t\t\tc.writeRawToAppenders(b)\n\t\t\t}")])
v("C11", "depth-local", "keep", [], [("log.go",
  "\tif enableCaller {\n\t\tif fastCaller {\n\t\t\tfile, line = FastCaller(skip + 1)\n\t\t} else {\n\t\t\t_, file, line, _ = runtime.Caller(skip + 1)\n\t\t}\n\t}",
  "\tif enableCaller {\n\t\tdepth := skip + 1\n\t\tif fastCaller {\n\t\t\tfile, line = FastCaller(depth)\n\t\t} else {\n\t\t\t_, file, line, _ = runtime.Caller(depth)\n\t\t}\n\t}")])
v("C11", "switch-form", "keep", [], [("log.go",
  "\tif enableCaller {\n\t\tif fastCaller {\n\t\t\tfile, line = FastCaller(skip + 1)\n\t\t} else {\n\t\t\t_, file, line, _ = runtime.Caller(skip + 1)\n\t\t}\n\t}",
  "\tswitch {\n\tcase !enableCaller:\n\tcase fastCaller:\n\t\tfile, line = FastCaller(skip + 1)\n\tdefault:\n\t\t_, file, line, _ = runtime.Caller(skip + 1)\n\t}")])
v("C11", "fast-array-buffer", "keep", [], [("caller.go",
  "\trpc := make([]uintptr, 1)\n\tn := runtime.Callers(skip+2, rpc[:])",
  "\tvar pcs [1]uintptr\n\trpc := pcs[:]\n\tn := runtime.Callers(skip+2, rpc)")])
v("C10", "hooks-reordered", "keep", [], [("log.go",
  "\tvar ctxString string\n\tif StringFromContext != nil {\n\t\tctxString = StringFromContext(ctx)\n\t}\n\n\tvar ctxFields []Field\n\tif FieldsFromContext != nil {\n\t\tctxFields = FieldsFromContext(ctx)\n\t}\n",
  "\tvar ctxFields []Field\n\tif FieldsFromContext != nil {\n\t\tctxFields = FieldsFromContext(ctx)\n\t}\n\n\tvar ctxString string\n\tif fn := StringFromContext; fn != nil {\n\t\tctxString = fn(ctx)\n\t}\n")])
v("C19", "start-assigns-field-directly", "keep", [], [("plugin_appender.go",
  "\tf, err := os.OpenFile(fileName, fileFlag, 0644)\n\tif err != nil {\n\t\treturn err\n\t}\n\tc.file = f\n\treturn nil\n",
  "\tf, err := os.OpenFile(fileName, fileFlag, 0644)\n\tif err == nil {\n\t\tc.file = f\n\t}\n\treturn err\n")])
v("C19", "stop-early-return", "keep", [], [("plugin_appender.go",
  "func (c *FileAppender) Stop() {\n\tif c.file != nil {\n\t\t_ = c.file.Sync()\n\t\t_ = c.file.Close()\n\t}\n}",
  "func (c *FileAppender) Stop() {\n\tif c.file == nil {\n\t\treturn\n\t}\n\t_ = c.file.Sync()\n\t_ = c.file.Close()\n}")])
v("C20", "close-helper", "keep", [], [("plugin_appender.go",
  "func (c *RollingFileAppender) Stop() {\n\tif file := c.oldFile.Swap(nil); file != nil {\n\t\t_ = file.Sync()\n\t\t_ = file.Close()\n\t}\n\tif file := c.file.Swap(nil); file != nil {\n\t\t_ = file.Sync()\n\t\t_ = file.Close()\n\t}\n}",
  "func (c *RollingFileAppender) Stop() {\n\tsyncAndClose(c.oldFile.Swap(nil))\n\tsyncAndClose(c.file.Swap(nil))\n}\n\n// syncAndClose flushes and closes a file, ignoring nil.\nfunc syncAndClose(file *os.File) {\n\tif file != nil {\n\t\t_ = file.Sync()\n\t\t_ = file.Close()\n\t}\n}"),
  ("plugin_appender.go", "\t// Close the previous rotation file\n\tif file := c.oldFile.Swap(nil); file != nil {\n\t\t_ = file.Sync()\n\t\t_ = file.Close()\n\t}\n", "\t// Close the previous rotation file\n\tsyncAndClose(c.oldFile.Swap(nil))\n")])
v("C20", "handover-by-swap", "keep", [], [("plugin_appender.go",
  "\toldFile := c.file.Load()\n\tc.oldFile.Store(oldFile)\n\n\tc.file.Store(file)\n",
  "\tc.oldFile.Store(c.file.Swap(file))\n")])
v("C13", "layout-constant", "keep", [], [("plugin_appender.go",
  "func (r TimeRotation) Format(t time.Time) string {\n\treturn t.Format(\"20060102150405\")\n}",
  "func (r TimeRotation) Format(t time.Time) string {\n\treturn t.Format(rotationLayout)\n}\n\nconst rotationLayout = \"20060102150405\""),
  ("plugin_appender.go", "time.Parse(\"20060102150405\", suffix)", "time.Parse(rotationLayout, suffix)")])
v("C14", "join-and-hasprefix", "keep", [], [("plugin_appender.go",
  "\t\tsuffix, ok := strings.CutPrefix(entry.Name(), c.FileName+\".\")\n\t\tif !ok {\n\t\t\tcontinue\n\t\t}\n",
  "\t\tprefix := c.FileName + \".\"\n\t\tif !strings.HasPrefix(entry.Name(), prefix) {\n\t\t\tcontinue\n\t\t}\n\t\tsuffix := entry.Name()[len(prefix):]\n"),
  ("plugin_appender.go", "filePath := fmt.Sprintf(\"%s/%s\", c.FileDir, entry.Name())", "filePath := filepath.Join(c.FileDir, entry.Name())")])
v("C13", "createfile-sprintf", "keep", [], [("plugin_appender.go",
  "\tfileName := c.FileName + \".\" + formatTime\n\tfilePath := filepath.Join(c.FileDir, fileName)\n",
  "\tfilePath := filepath.Join(c.FileDir, fmt.Sprintf(\"%s.%s\", c.FileName, formatTime))\n")])

# ---------------------------------------------------------------- refactored form + a break (the rule must still fire in the refactored shape)
ITER_OLD = "\t\tif l, ok := cTags[tag]; ok {\n\t\t\treturn l\n\t\t}\n\t\ttag, _ = strings.CutSuffix(tag, \"_*\")\n\t\ti := strings.LastIndex(tag, \"_\")\n\t\tif i <= 0 {\n\t\t\treturn cRoot\n\t\t}\n\t\ttag = strings.TrimSuffix(tag[:i], \"_\") + \"_*\"\n\t\treturn findLoggerForTag(tag)\n"
v("C02", "iterative-root-too-early", "break", ["C02.result"], [("log_refresh.go", ITER_OLD,
  "\t\tfor {\n\t\t\tif l, ok := cTags[tag]; ok {\n\t\t\t\treturn l\n\t\t\t}\n\t\t\ttag, _ = strings.CutSuffix(tag, \"_*\")\n\t\t\ti := strings.LastIndex(tag, \"_\")\n\t\t\tif i < 2 {\n\t\t\t\treturn cRoot\n\t\t\t}\n\t\t\ttag = strings.TrimSuffix(tag[:i], \"_\") + \"_*\"\n\t\t}\n")])
v("C02", "iterative-returns-default", "break", ["C02.result"], [("log_refresh.go", ITER_OLD,
  "\t\tfor {\n\t\t\tif l, ok := cTags[tag]; ok {\n\t\t\t\treturn l\n\t\t\t}\n\t\t\ttag, _ = strings.CutSuffix(tag, \"_*\")\n\t\t\ti := strings.LastIndex(tag, \"_\")\n\t\t\tif i <= 0 {\n\t\t\t\treturn defaultLogger\n\t\t\t}\n\t\t\ttag = strings.TrimSuffix(tag[:i], \"_\") + \"_*\"\n\t\t}\n")])
v("C02", "root-fallback-off-by-one", "break", ["C02.result"], [("log_refresh.go",
  "\t\tif i <= 0 {\n\t\t\treturn cRoot\n\t\t}", "\t\tif i <= 1 {\n\t\t\treturn cRoot\n\t\t}")])
v("C02", "split-loop-drops-known-tags", "break", ["C02.all-tags"], [("log_refresh.go",
  "for tag := range strings.SplitSeq(logger.GetTags(), \",\") {\n\t\t\tif tag = strings.TrimSpace(tag); tag == \"\" {\n\t\t\t\tcontinue\n\t\t\t}",
  "for _, tag := range strings.Split(logger.GetTags(), \",\") {\n\t\t\tif tag = strings.TrimSpace(tag); tag == \"\" {\n\t\t\t\tcontinue\n\t\t\t}\n\t\t\tif _, dup := cTags[tag]; dup {\n\t\t\t\tcontinue\n\t\t\t}")])
v("C20", "close-helper-only-syncs", "break", ["C05.close-all", "C05.fd-bound"], [("plugin_appender.go",
  "func (c *RollingFileAppender) Stop() {\n\tif file := c.oldFile.Swap(nil); file != nil {\n\t\t_ = file.Sync()\n\t\t_ = file.Close()\n\t}\n\tif file := c.file.Swap(nil); file != nil {\n\t\t_ = file.Sync()\n\t\t_ = file.Close()\n\t}\n}",
  "func (c *RollingFileAppender) Stop() {\n\tsyncAndClose(c.oldFile.Swap(nil))\n\tsyncAndClose(c.file.Swap(nil))\n}\n\n// syncAndClose flushes a file, ignoring nil.\nfunc syncAndClose(file *os.File) {\n\tif file != nil {\n\t\t_ = file.Sync()\n\t}\n}"),
  ("plugin_appender.go", "\t// Close the previous rotation file\n\tif file := c.oldFile.Swap(nil); file != nil {\n\t\t_ = file.Sync()\n\t\t_ = file.Close()\n\t}\n", "\t// Close the previous rotation file\n\tsyncAndClose(c.oldFile.Swap(nil))\n")])
v("C20", "close-helper-skips-on-error", "break", ["C05.close-all", "C05.fd-bound"], [("plugin_appender.go",
  "func (c *RollingFileAppender) Stop() {\n\tif file := c.oldFile.Swap(nil); file != nil {\n\t\t_ = file.Sync()\n\t\t_ = file.Close()\n\t}\n\tif file := c.file.Swap(nil); file != nil {\n\t\t_ = file.Sync()\n\t\t_ = file.Close()\n\t}\n}",
  "func (c *RollingFileAppender) Stop() {\n\tsyncAndClose(c.oldFile.Swap(nil))\n\tsyncAndClose(c.file.Swap(nil))\n}\n\n// syncAndClose flushes and closes a file, ignoring nil.\nfunc syncAndClose(file *os.File) {\n\tif file != nil {\n\t\tif err := file.Sync(); err != nil {\n\t\t\treturn\n\t\t}\n\t\t_ = file.Close()\n\t}\n}"),
  ("plugin_appender.go", "\t// Close the previous rotation file\n\tif file := c.oldFile.Swap(nil); file != nil {\n\t\t_ = file.Sync()\n\t\t_ = file.Close()\n\t}\n", "\t// Close the previous rotation file\n\tsyncAndClose(c.oldFile.Swap(nil))\n")])
v("C20", "swap-result-dropped", "break", ["C05.fd-bound"], [("plugin_appender.go",
  "\toldFile := c.file.Load()\n\tc.oldFile.Store(oldFile)\n\n\tc.file.Store(file)\n",
  "\tc.file.Swap(file)\n")])
v("C13", "sprintf-wrong-separator", "break", ["C13.name"], [("plugin_appender.go",
  "\tfileName := c.FileName + \".\" + formatTime\n\tfilePath := filepath.Join(c.FileDir, fileName)\n",
  "\tfilePath := filepath.Join(c.FileDir, fmt.Sprintf(\"%s-%s\", c.FileName, formatTime))\n")])
v("C06", "capacity-one-short", "break", ["C06.capacity"], [("plugin_logger.go",
  "c.buf = make(chan any, c.BufferSize)", "c.buf = make(chan any, c.BufferSize-1)")])
v("C06", "capacity-local", "keep", [], [("plugin_logger.go",
  "c.buf = make(chan any, c.BufferSize)", "size := c.BufferSize\n\tc.buf = make(chan any, size)")])
v("C06", "method-worker-second-consumer", "break", ["C06.single-consumer"], [("plugin_logger.go",
  "\t// Worker goroutine to process buffered items\n\tgo func() {\n", "\tgo c.run()\n\tgo c.run()\n\treturn nil\n}\n\n// run processes buffered items until the stop marker arrives.\nfunc (c *AsyncLogger) run() {\n\t{\n"),
  ("plugin_logger.go", "\t\tclose(c.wait)\n\t}()\n\treturn nil\n}", "\t\tclose(c.wait)\n\t}\n}")])
v("C08", "truncate-at-equal", "break", ["C08.truncate"], [("plugin_layout.go",
  "if n := len(fileLine); n > c.FileLineLength {", "if n := len(fileLine); n >= c.FileLineLength {")])
v("C08", "truncate-keeps-w-minus-2", "break", ["C08.truncate"], [("plugin_layout.go",
  "fileLine[n-max(c.FileLineLength-3, 0):]", "fileLine[n-max(c.FileLineLength-2, 0):]")])
v("C08", "truncate-not-less-form", "keep", [], [("plugin_layout.go",
  "if n := len(fileLine); n > c.FileLineLength {", "if n := len(fileLine); !(n <= c.FileLineLength) {")])
v("C10", "hooks-local-copy-second-call", "break", ["C10.once"], [("log.go",
  "\tvar ctxString string\n\tif StringFromContext != nil {\n\t\tctxString = StringFromContext(ctx)\n\t}\n",
  "\tvar ctxString string\n\tif fn := StringFromContext; fn != nil {\n\t\tctxString = fn(ctx)\n\t\tctxString = fn(ctx)\n\t}\n")])

# ---------------------------------------------------------------- more behaviour-preserving refactors (keep), round 3b
v("C15", "parse-error-first", "keep", [], [("plugin.go",
  "\t\tu, err := strconv.ParseUint(val, 0, 0)\n\t\tif err == nil {\n\t\t\tfv.SetUint(u)\n\t\t\treturn nil\n\t\t}\n\t\treturn errutil.Stack(err, \"inject struct field %s error\", ft.Name)\n",
  "\t\tu, err := strconv.ParseUint(val, 0, 0)\n\t\tif err != nil {\n\t\t\treturn errutil.Stack(err, \"inject struct field %s error\", ft.Name)\n\t\t}\n\t\tfv.SetUint(u)\n\t\treturn nil\n"),
  ("plugin.go",
  "\t\ti, err := strconv.ParseInt(val, 0, 0)\n\t\tif err == nil {\n\t\t\tfv.SetInt(i)\n\t\t\treturn nil\n\t\t}\n\t\treturn errutil.Stack(err, \"inject struct field %s error\", ft.Name)\n",
  "\t\ti, err := strconv.ParseInt(val, 0, 0)\n\t\tif err != nil {\n\t\t\treturn errutil.Stack(err, \"inject struct field %s error\", ft.Name)\n\t\t}\n\t\tfv.SetInt(i)\n\t\treturn nil\n")])
v("C15", "single-element-lookup-merged", "keep", [], [("plugin.go",
  "\t\t} else if s.Has(elemKey) { // Single element\n\t\t\tconst def = \":def:\"\n\t\t\tstrType := s.Get(elemKey+\".type\", def)\n\n\t\t\tvar (\n\t\t\t\tp  *Plugin\n\t\t\t\tok bool\n\t\t\t)\n\t\t\tif strType != def {\n\t\t\t\tif p, ok = pluginRegistry[PluginType(toCamelKey(elemType))][strType]; !ok {\n\t\t\t\t\terr := errutil.Explain(nil, \"plugin %s not found\", strType)\n\t\t\t\t\treturn errutil.Stack(err, \"inject struct field %s error\", ft.Name)\n\t\t\t\t}\n\t\t\t} else {\n\t\t\t\tif p, ok = pluginRegistry[PluginType(toCamelKey(elemType))][elemType]; !ok {\n\t\t\t\t\terr := errutil.Explain(nil, \"plugin %s not found\", elemType)\n\t\t\t\t\treturn errutil.Stack(err, \"inject struct field %s error\", ft.Name)\n\t\t\t\t}\n\t\t\t}\n",
  "\t\t} else if s.Has(elemKey) { // Single element\n\t\t\tconst def = \":def:\"\n\t\t\tstrType := s.Get(elemKey+\".type\", def)\n\t\t\tif strType == def {\n\t\t\t\tstrType = elemType\n\t\t\t}\n\t\t\tp, ok := pluginRegistry[PluginType(toCamelKey(elemType))][strType]\n\t\t\tif !ok {\n\t\t\t\terr := errutil.Explain(nil, \"plugin %s not found\", strType)\n\t\t\t\treturn errutil.Stack(err, \"inject struct field %s error\", ft.Name)\n\t\t\t}\n")])
v("C15", "placeholder-by-cut", "keep", [], [("plugin.go",
  "\tif strings.HasPrefix(val, \"${\") && strings.HasSuffix(val, \"}\") {\n\t\tv, ok := s.RawData()[toCamelKey(val[2:len(val)-1])]\n",
  "\tif inner, isRef := cutPlaceholder(val); isRef {\n\t\tv, ok := s.RawData()[toCamelKey(inner)]\n"),
  ("plugin.go", "// injectElement injects child plugin elements into a struct field.",
  "// cutPlaceholder returns the key inside a ${key} reference.\nfunc cutPlaceholder(val string) (string, bool) {\n\tinner, ok := strings.CutPrefix(val, \"${\")\n\tif !ok {\n\t\treturn \"\", false\n\t}\n\treturn strings.CutSuffix(inner, \"}\")\n}\n\n// injectElement injects child plugin elements into a struct field.")])
v("C15", "name-attr-by-cut", "keep", [], [("plugin.go",
  "\t\tname := prefix[strings.LastIndex(prefix, \".\")+1:]\n\t\tfv.SetString(name)\n",
  "\t\tname := prefix\n\t\tif i := strings.LastIndex(prefix, \".\"); i >= 0 {\n\t\t\tname = prefix[i+1:]\n\t\t}\n\t\tfv.SetString(name)\n")])

# ---------------------------------------------------------------- round-3 rules: value-level breaks and equivalent forms
v("C11", "cache-key-narrowed", "break", ["C11.cache-key"], [("caller.go", "frameCache.Load(pc)", "frameCache.Load(uint32(pc))"),
  ("caller.go", "frameCache.Store(pc, &frame)", "frameCache.Store(uint32(pc), &frame)")])
v("C11", "cache-key-shifted", "break", ["C11.cache-key"], [("caller.go", "frameCache.Load(pc)", "frameCache.Load(pc >> 4)"),
  ("caller.go", "frameCache.Store(pc, &frame)", "frameCache.Store(pc>>4, &frame)")])
v("C11", "cache-key-copy", "keep", [], [("caller.go", "\tpc := rpc[0]\n", "\tpc := rpc[0]\n\tcacheKey := pc\n"),
  ("caller.go", "frameCache.Load(pc)", "frameCache.Load(cacheKey)"), ("caller.go", "frameCache.Store(pc, &frame)", "frameCache.Store(cacheKey, &frame)")])
v("C11", "setter-writes-other-flag", "break", ["C11.setters"], [("log.go", "\t\tfastCaller = b\n", "\t\tenableCaller = b\n")])
# int32 multiplication: overflows for max ages above 596523 h (e.g. 999999 as "keep forever"): the cut-off moves into
# the future and everything is deleted (seeded change C19-r3b); caught since the retention evaluation covers large ages
v("C14", "age-narrow-multiplication", "break", ["C14"], [("plugin_appender.go",
  "time.Now().Add(-time.Duration(c.MaxAge) * time.Hour)", "time.Now().Add(-time.Duration(c.MaxAge*3600) * time.Second)")])
# ... the same shape with a factor that does overflow inside the range: nanoseconds in int32 arithmetic
v("C14", "age-overflows-in-range", "break", ["C14"], [("plugin_appender.go",
  "time.Now().Add(-time.Duration(c.MaxAge) * time.Hour)", "time.Now().Add(-time.Duration(c.MaxAge*3600*1000) * time.Millisecond)")])
v("C14", "overflow-guard-removed", "break", ["C14"], [("plugin_appender.go",
  "\tif int64(c.MaxAge) > maxHours {\n\t\treturn\n\t}\n", "\t_ = maxHours\n")])
v("C14", "age-factors-swapped", "keep", [], [("plugin_appender.go",
  "time.Now().Add(-time.Duration(c.MaxAge) * time.Hour)", "time.Now().Add(-(time.Hour * time.Duration(c.MaxAge)))")])
v("C15", "camel-upper-range-open", "break", ["C15.camel"], [("log_reader.go",
  "\t\t\tif c >= 'a' && c <= 'z' {\n\t\t\t\tc -= offset", "\t\t\tif c > 'a' && c <= 'z' {\n\t\t\t\tc -= offset")])
v("C15", "camel-range-not-form", "keep", [], [("log_reader.go",
  "\t\t\tif c >= 'a' && c <= 'z' {\n\t\t\t\tc -= offset", "\t\t\tif !(c < 'a' || c > 'z') {\n\t\t\t\tc -= offset")])
v("C15", "parse-int-32-bits", "break", ["C15.int-width"], [("plugin.go", "strconv.ParseInt(val, 0, 0)", "strconv.ParseInt(val, 0, 32)")])
v("C15", "parse-int-64-bits", "keep", [], [("plugin.go", "strconv.ParseInt(val, 0, 0)", "strconv.ParseInt(val, 0, 64)")])
v("C15", "subst-prefix-off-by-one", "break", ["C15.subst"], [("plugin.go", "toCamelKey(val[2:len(val)-1])", "toCamelKey(val[1:len(val)-1])")])
v("C15", "subst-suffix-unchecked", "break", ["C15.subst"], [("plugin.go",
  "if strings.HasPrefix(val, \"${\") && strings.HasSuffix(val, \"}\") {", "if strings.HasPrefix(val, \"${\") {")])
v("C15", "subst-cut-wrong-suffix", "break", ["C15.subst"], [("plugin.go",
  "\tif strings.HasPrefix(val, \"${\") && strings.HasSuffix(val, \"}\") {\n\t\tv, ok := s.RawData()[toCamelKey(val[2:len(val)-1])]\n",
  "\tif inner, isRef := cutPlaceholder(val); isRef {\n\t\tv, ok := s.RawData()[toCamelKey(inner)]\n"),
  ("plugin.go", "// injectElement injects child plugin elements into a struct field.",
  "// cutPlaceholder returns the key inside a ${key} reference.\nfunc cutPlaceholder(val string) (string, bool) {\n\tinner, ok := strings.CutPrefix(val, \"${\")\n\tif !ok {\n\t\treturn \"\", false\n\t}\n\treturn strings.CutSuffix(inner, \")\")\n}\n\n// injectElement injects child plugin elements into a struct field.")])
v("C15", "subst-cut-ok-ignored", "break", ["C15.subst"], [("plugin.go",
  "\tif strings.HasPrefix(val, \"${\") && strings.HasSuffix(val, \"}\") {\n\t\tv, ok := s.RawData()[toCamelKey(val[2:len(val)-1])]\n",
  "\tif inner, isRef := strings.CutPrefix(val, \"${\"); isRef {\n\t\tinner, _ = strings.CutSuffix(inner, \"}\")\n\t\tv, ok := s.RawData()[toCamelKey(inner)]\n")])
v("C17", "unquote-window-short", "break", ["C17.escapes"], [("expr/parse.go", "if c == '\\\\' && i+1 < len(s) {", "if c == '\\\\' && i+2 < len(s) {")])
v("C17", "unquote-window-le-form", "keep", [], [("expr/parse.go", "if c == '\\\\' && i+1 < len(s) {", "if c == '\\\\' && i+1 <= len(s)-1 {")])
v("C17", "table-hex-range-cut", "break", ["C17.tables"], [("expr/expr_lexer.go", "2, 0, 65, 70, 97, 102, 3,", "2, 0, 65, 70, 97, 101, 3,")])
v("C17", "grammar-class-not-regenerated", "break", ["C17.tables"], [("expr/Expr.g4", "IDENT : [a-zA-Z_][a-zA-Z0-9_]* ;", "IDENT : [a-zA-Z_][a-zA-Z0-9_$]* ;")],
  "the grammar was edited and the lexer not regenerated")
v("C18", "buildtag-action-le-zero", "break", ["C18.register:BuildTag#omits"], [("log_tag.go", "\tif action == \"\" {\n\t\treturn \"_\" + mainType", "\tif action <= \"0\" {\n\t\treturn \"_\" + mainType")])
v("C18", "buildtag-len-form", "keep", [], [("log_tag.go", "\tif action == \"\" {\n\t\treturn \"_\" + mainType", "\tif len(action) == 0 {\n\t\treturn \"_\" + mainType")])
v("C20", "async-chosen-by-other-flag", "break", ["C20.async-opt-in"], [("plugin_logger.go", "func (f *RollingFileLogger) Start() error {\n\tif f.AsyncWrite {", "func (f *RollingFileLogger) Start() error {\n\tif f.Separate {")])
v("C20", "async-choice-negated-form", "keep", [], [("plugin_logger.go",
  "\tif f.AsyncWrite {\n\t\treturn initRollingFileLogger(f, func(f *RollingFileLogger) Logger {\n\t\t\treturn &AsyncLogger{\n\t\t\t\tLoggerBase:       f.LoggerBase,\n\t\t\t\tBufferSize:       f.BufferSize,\n\t\t\t\tBufferFullPolicy: f.BufferFullPolicy,\n\t\t\t}\n\t\t})\n\t} else {\n\t\treturn initRollingFileLogger(f, func(f *RollingFileLogger) Logger {\n\t\t\treturn &SyncLogger{\n\t\t\t\tLoggerBase: f.LoggerBase,\n\t\t\t}\n\t\t})\n\t}",
  "\tif !f.AsyncWrite {\n\t\treturn initRollingFileLogger(f, func(f *RollingFileLogger) Logger {\n\t\t\treturn &SyncLogger{\n\t\t\t\tLoggerBase: f.LoggerBase,\n\t\t\t}\n\t\t})\n\t}\n\treturn initRollingFileLogger(f, func(f *RollingFileLogger) Logger {\n\t\treturn &AsyncLogger{\n\t\t\tLoggerBase:       f.LoggerBase,\n\t\t\tBufferSize:       f.BufferSize,\n\t\t\tBufferFullPolicy: f.BufferFullPolicy,\n\t\t}\n\t})")])

# ---------------------------------------------------------------- breaks on top of the sub-agents' refactorings (keep-ext): the rule fires in the refactored shape too
v("C18", "ext-helper-alphabet-open", "break", ["C18.alphabet"], [("log_tag.go", "\tcase c >= '0' && c <= '9':\n\t\treturn true", "\tcase c >= '0' && c < '9':\n\t\treturn true")], base="keep-ext/C18-r4a.patch")
v("C07", "ext-helper-skips-escaper", "break", ["C09.use"], [("field_encoder.go", "\tenc.buf.WriteByte('\"')\n\tWriteLogString(enc.buf, s)\n\tenc.buf.WriteByte('\"')", "\tenc.buf.WriteByte('\"')\n\tenc.buf.WriteString(s)\n\tenc.buf.WriteByte('\"')")], base="keep-ext/C07-r4a.patch")
v("C10", "ext-helper-calls-hook-twice", "break", ["C10.once"], [("log.go", "\tif StringFromContext != nil {\n\t\treturn StringFromContext(ctx)\n\t}\n\treturn \"\"", "\tif StringFromContext != nil {\n\t\t_ = StringFromContext(ctx)\n\t\treturn StringFromContext(ctx)\n\t}\n\treturn \"\"")], base="keep-ext/C10-r4a.patch")
v("C10", "ext-helper-used-elsewhere", "break", ["C10.hook-sites"], [("log_logger.go", "func (m *LoggerWrapper) Write(b []byte) (n int, err error) {", "func (m *LoggerWrapper) Write(b []byte) (n int, err error) {\n\t_ = eventTime(nil)")], base="keep-ext/C10-r4a.patch")
v("C13", "ext-helper-forgets-close", "break", ["C05.close-all", "C05.fd-bound"], [("plugin_appender.go", "\tif file := p.Swap(nil); file != nil {\n\t\t_ = file.Sync()\n\t\t_ = file.Close()\n\t}", "\tif file := p.Swap(nil); file != nil {\n\t\t_ = file.Sync()\n\t}")], base="keep-ext/C13-r4a.patch")
v("C04", "ext-enqueue-sends-wrapper", "break", ["C04.worker:send-types"], [("plugin_logger.go", "\tc.enqueue(b)\n}", "\tc.enqueue(string(b))\n}")], base="keep-ext/C04-r4c.patch")
# round-7 shapes: the rules and evaluators must still fire on the refactored code
v("C13", "ext-snapshot-published-without-claim", "break", ["C13"], [("plugin_appender.go",
  "\tif !c.claim(c.Rotation.Time(now)) {\n\t\treturn\n\t}\n", "\t_ = c.claim(c.Rotation.Time(now))\n")], base="keep-ext/C13-r7k.patch")
v("C04", "ext-typed-worker-skips-raw", "break", ["C04"], [("plugin_logger.go",
  "\t\tcase asyncItemRaw:\n\t\t\tc.writeRawToAppenders(it.raw)\n", "\t\tcase asyncItemRaw:\n\t\t\tif len(it.raw) > 64 {\n\t\t\t\tc.writeRawToAppenders(it.raw)\n\t\t\t}\n")], base="keep-ext/C05-r7k.patch")
v("C11", "ext-emit-helper-skip-off-by-one", "break", ["C11"], [("log.go",
  "const viaEntryPoint = 2", "const viaEntryPoint = 1")], base="keep-ext/C11-r7k.patch")
v("C02", "ext-builder-binds-root-only", "break", ["C02"], [("log_refresh.go",
  "\t\tobj.logger = c.loggerForTag(tag)\n", "\t\tobj.logger = c.loggerForTag(tag[:0])\n")], base="keep-ext/C16-r7k.patch")
v("C14", "ext-predicate-drops-shape", "break", ["C14.guards"], [("plugin_appender.go", "\t_, err := time.Parse(\"20060102150405\", suffix)\n\treturn err == nil", "\treturn suffix != \"\"")], base="keep-ext/C14-r4a.patch")
v("C16", "ext-unbind-helper-skips-handles", "break", ["C16.unbind"], [("log_refresh.go", "\tfor _, l := range loggerMap {\n\t\tl.logger = nil\n\t}\n}", "}")], base="keep-ext/C16-r4a.patch")
v("C02", "ext-helper-accepts-bad-wildcard", "break", ["C02.validate"], [("log_refresh.go", "\t\tif strings.Contains(tag, \"*\") {\n\t\t\tif !strings.HasSuffix(tag, \"_*\") {\n\t\t\t\treturn nil, errutil.Explain(nil, \"tag '%s' is invalid\", tag)\n\t\t\t}\n\t\t}\n", "")], base="keep-ext/C02-r4b.patch")
v("C09", "ext-width-always-one", "break", ["C09.utf8"], [("field_encoder.go", "\t\t\t\twidth = size\n", "")], base="keep-ext/C09-r4a.patch")
v("C17", "ext-unescape-wrong-n", "break", ["C17.escapes"], [("expr/parse.go", "\tcase 'n':\n\t\treturn '\\n'", "\tcase 'n':\n\t\treturn '\\r'")], base="keep-ext/C17-r4b.patch")
v("C08", "ext-reset-helper-wrong-depth", "break", ["C08.delegate"], [("field_encoder.go", "func (enc *TextEncoder) resetAtTopLevel() {\n\tif enc.jsonDepth == 0 {", "func (enc *TextEncoder) resetAtTopLevel() {\n\tif enc.jsonDepth == 1 {")], base="keep-ext/C08-r4a.patch")
v("C03", "ext-finish-helper-returns-alias", "break", ["C03.alias"], [("plugin_layout.go", "\tbuf.WriteByte('\\n')\n\treturn bytes.Clone(buf.Bytes())\n}", "\tbuf.WriteByte('\\n')\n\treturn buf.Bytes()\n}")], base="keep-ext/C03-r4a.patch")
v("C01", "ext-ctor-ranges-overlap", "break", ["C01.split"], [("plugin_logger.go", "newRollingFileAppenderRef(f, layout, f.FileName+\".wf\", normalMaxLevel, f.Level.MaxLevel))", "newRollingFileAppenderRef(f, layout, f.FileName+\".wf\", f.Level.MinLevel, f.Level.MaxLevel))")], base="keep-ext/C01-r4c.patch")
v("C16", "ext-ctor-nil-layout", "break", ["C16.iface-fields"], [("plugin_logger.go", "\t\tnewRollingFileAppenderRef(f, layout, f.FileName, f.Level.MinLevel, normalMaxLevel),", "\t\tnewRollingFileAppenderRef(f, f.Layout, f.FileName, f.Level.MinLevel, normalMaxLevel),")], base="keep-ext/C01-r4c.patch")
# breaks on top of round-8 refactorings (the generalised roles must still carry the rules and the evaluators)
v("C10", "ext-r8-lazy-before-gate", "break", ["C10"], [("log.go", "\tif l, ok := tag.serving(level); ok {\n\t\tpublish(ctx, l, level, tag.tag, 2, fn())\n\t}", "\tfields := fn()\n\tif l, ok := tag.serving(level); ok {\n\t\tpublish(ctx, l, level, tag.tag, 2, fields)\n\t}")], base="keep-ext/C10-r8k.patch")
v("C04", "ext-r8-queue-discard-uncounted", "break", ["C04"], [("plugin_logger.go", "\tcase BufferFullPolicyDiscard:\n\t\tdrop(v)\n", "\tcase BufferFullPolicyDiscard:\n")], base="keep-ext/C06-r8k.patch")
v("C06", "ext-r8-queue-offer-blocks", "break", ["C06"], [("plugin_logger.go", "\tselect {\n\tcase q.ch <- v:\n\t\treturn true\n\tdefault:\n\t\treturn false\n\t}", "\tq.ch <- v\n\treturn true")], base="keep-ext/C06-r8k.patch")
v("C14", "ext-r8-owns-any-length", "break", ["C14"], [("plugin_appender_retention.go", "\tif !ok || len(stamp) != len(stampLayout) {", "\tif !ok {")], base="keep-ext/C14-r8k.patch")
v("C02", "ext-r8-prefixes-consult-bare-wildcard", "break", ["C02"], [("log_tag.go", "\t\t\tif i <= 0 {\n\t\t\t\treturn\n\t\t\t}\n\t\t\ttag = strings.TrimSuffix(tag[:i], \"_\")", "\t\t\tif i < 0 {\n\t\t\t\treturn\n\t\t\t}\n\t\t\ttag = strings.TrimSuffix(tag[:i], \"_\")")], base="keep-ext/C02-r8k.patch")
v("C20", "ext-named-ctor-wrong-flag", "break", ["C20.async-opt-in"], [("plugin_logger.go", "\tif f.AsyncWrite {\n\t\treturn initRollingFileLogger(f, newRollingAsyncLogger)", "\tif f.Separate {\n\t\treturn initRollingFileLogger(f, newRollingAsyncLogger)")], base="keep-ext/C20-r4c.patch")


def main():
    for k in ("break", "keep"):
        os.makedirs(os.path.join(OUT, k), exist_ok=True)
        for f in os.listdir(os.path.join(OUT, k)):
            # only the generated files are replaced; hand-written variants and the rename variants carry another marker
            p = os.path.join(OUT, k, f)
            if f.endswith(".patch") and "(%s)\n" % k in open(p).readline() and "hand-written" not in open(p).readline() and not f.startswith("ALL-"):
                os.remove(p)
    bad = 0
    for prop, name, kind, expects, edits, comment in V:
        files = {}
        ok = True
        based = {}
        if (prop, name) in BASES:
            import subprocess, tempfile, shutil
            tmp = tempfile.mkdtemp(prefix="mkvar-", dir="/var/tmp")
            subprocess.run(["rsync", "-a", "--exclude", ".git", "--exclude", "logs", "--exclude", "benchmarks", REPO + "/", tmp + "/"], check=True)
            pr = subprocess.run(["patch", "-p1", "-s", "-f", "--no-backup-if-mismatch", "-i", os.path.join(OUT, BASES[(prop, name)])], cwd=tmp, capture_output=True, text=True)
            if pr.returncode != 0:
                print(f"!! {prop}-{name}: base patch does not apply: {pr.stdout[:200]}")
                shutil.rmtree(tmp); bad += 1; continue
            for root, _, fs in os.walk(tmp):
                for f in fs:
                    if f.endswith(".go") or f.endswith(".g4"):
                        rel = os.path.relpath(os.path.join(root, f), tmp)
                        cur = open(os.path.join(root, f)).read()
                        orig_p = os.path.join(REPO, rel)
                        orig = open(orig_p).read() if os.path.exists(orig_p) else ""
                        if cur != orig:
                            based[rel] = cur
            shutil.rmtree(tmp)
            for rel, cur in based.items():
                orig_p = os.path.join(REPO, rel)
                files[rel + "#orig"] = open(orig_p).read() if os.path.exists(orig_p) else ""
                files[rel] = cur
        for fn, old, new in edits:
            src = files.get(fn)
            if src is None:
                src = open(os.path.join(REPO, fn)).read()
                files.setdefault(fn + "#orig", src)
            if src.count(old) != 1:
                print(f"!! {prop}-{name}: fragment occurs {src.count(old)}x in {fn}: {old[:50]!r}")
                ok = False
                break
            files[fn] = src.replace(old, new)
        if not ok:
            bad += 1
            continue
        out = [f"# variant: {prop}-{name} ({kind})"]
        for e in expects:
            out.append(f"# expect: {e}")
        if comment:
            out.append(f"# note: {comment}")
        body = []
        for fn in [f for f in files if not f.endswith("#orig")]:
            a = files[fn + "#orig"].splitlines(keepends=True)
            b = files[fn].splitlines(keepends=True)
            body.extend(difflib.unified_diff(a, b, "a/" + fn if a else "/dev/null", "b/" + fn))
        open(os.path.join(OUT, kind, f"{prop}-{name}.patch"), "w").write("\n".join(out) + "\n" + "".join(body))
    print(f"{len(V) - bad} variants written, {bad} skipped")

if __name__ == "__main__":
    main()
