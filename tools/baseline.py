#!/usr/bin/env python3
"""Runs the repository's test suite (guard off) in the given tree and compares
with the 158 stable tests of /root/.vp/BASELINE.json. Exit 0 iff all pass."""
import json, subprocess, sys, os
repo = sys.argv[1] if len(sys.argv) > 1 else "/repo"
base = json.load(open("/root/.vp/BASELINE.json"))
env = dict(os.environ)
for k in ("GOFLAGS", "GOTOOLCHAIN", "GOWORK"):
    env.pop(k, None)
p = subprocess.run(["go", "test", "-json", "-vet=off", "-count=1", "-timeout", "25m", "./..."],
                   cwd=repo, env=env, capture_output=True, text=True)
res = {}
for line in p.stdout.splitlines():
    try:
        e = json.loads(line)
    except Exception:
        continue
    if e.get("Test") and e.get("Action") in ("pass", "fail", "skip"):
        res[f'{e["Package"]}::{e["Test"]}'] = e["Action"]
bad = [t for t in base["stable_pass"] if res.get(t) != "pass"]
print(f"stable tests passing: {len(base['stable_pass']) - len(bad)}/{len(base['stable_pass'])}")
for t in bad:
    print("NOT PASSING:", t, res.get(t))
if not res:
    print(p.stdout[-2000:], p.stderr[-2000:])
sys.exit(1 if bad else 0)
