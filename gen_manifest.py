#!/usr/bin/env python3
"""Regenerates MANIFEST.json from the table below (kept next to the checks so
the two do not drift). Usage: python3 gen_manifest.py"""
import json, os

HERE = os.path.dirname(os.path.abspath(__file__))

# id -> (technique, level text, level note, design ref)
CLAIMED = {}

def claim(pid, technique, text, note, ref):
    CLAIMED[pid] = (technique, text, note, ref)

NOTE_COMMON = ("Trusted: go/types + go/ssa (x/tools v0.50.0) as the program representation, `go list` of go1.26.8, "
               "closed-world dispatch over the module's own interface implementations; library contracts listed in the evidence file. "
               "Each rule is a necessary structural condition of the property, not the behaviour itself; undecided obligations fail the check.")

claim("C13", "custom SSA lint: constant-folded open flags, provenance tree of the file name, dominance (rotate before load), control dependence on the CAS",
      "Static necessary conditions of the rolling appender decided on every path and call site: O_APPEND/no O_TRUNC at every open, name = dir/name.<14-digit time> from the same clock reading as the interval, rotation step dominates the single file load, file-field writes only under the successful compare-and-swap, shared state in sync/atomic types. Loss-freedom under real interleavings is a schedule property and is declared not decided.",
      NOTE_COMMON, "DESIGN.md §4 C13")
claim("C14", "who-may-call rule over resolved callees + dominating-guard analysis + linear normalisation of the age comparison",
      "Decides for every path to the only os.Remove in the module that it is dominated by a not-a-directory test, the own-prefix test, a suffix-shape test tied to the producer's 14-digit layout, and an age test equivalent to mtime < now - MaxAge*Hour, and that the removed path is the tested entry. This is the full set of conditions the statement lists; directory contents and mtimes are runtime data and are not enumerated.",
      NOTE_COMMON, "DESIGN.md §4 C14")
claim("C19", "control-dependence analysis of the rotation step's error path + panic/exit reachability over the module call graph",
      "Decides that no file-holding field is written where file creation may have failed, that the error path returns normally, that no explicit panic/os.Exit/log.Fatal is on the log call path and that sink writes tolerate a nil file. Fault/boundary interleavings are not decided.",
      NOTE_COMMON, "DESIGN.md §4 C19")
claim("C20", "type-level who-may-hold rule + forward alias closure of formatted bytes to the sink write",
      "Decides that no synchronous logger/appender/layout type can hold log bytes in a user-space buffer and that formatted bytes flow only into (*os.File).Write / the console io.Writer on the caller's goroutine (no go/send/store/capture). What the kernel does after write(2) is not decided.",
      NOTE_COMMON, "DESIGN.md §4 C20")

claim("C18", "finite-domain value-set analysis (all 256 bytes; order types of len against compared constants) + dominating-guard rule on the registry store",
      "Decides exactly, for every byte value and every length/segment-count order type, that the validator accepts [a-z0-9_], 3..36, Split(TrimPrefix(tag,\"_\"),\"_\") with 1..4 non-empty segments, that the byte loop covers every index, and that the registry has one writer guarded by !init, the validator's true edge and a lookup miss. A segment test written outside the recognised family is reported as undecided rather than guessed.",
      NOTE_COMMON, "DESIGN.md §4 C18")
claim("C09", "finite-domain abstract interpretation of the escaper (256 byte values x decode-test outcomes) against the RFC 8259 escape table",
      "For every byte value the ASCII handler's output fragment is computed from the SSA and checked to be a valid JSON string fragment decoding to that byte; the main loop's three continuations are enumerated path-sensitively (handled / invalid byte / valid rune) and checked for the written slice and the index advance. Given the utf8.DecodeRuneInString contract this decides the property's never-raw-control-byte and one-U+FFFD-per-invalid-byte clauses for all byte strings.",
      NOTE_COMMON, "DESIGN.md §4 C09")

claim("C07", "typestate simulation of every encoder method x token state (separator automaton), table agreement constructor<->ValueType<->Append method by kind family, AST rule over Any's type switch, must-facts for the non-finite guard, constant folding of number formats",
      "Decides the structural conditions behind 'one valid JSON object that decodes to the logged data': key order of the layout on both ctxString paths, the comma automaton for all 13 methods x 7 states, exhaustive and kind-correct dispatch with inverse representation pairs, base-10 / shortest-round-trip number formats, no unquoted non-finite float, every buffer write sanitised. Value fidelity beyond these tables rests on strconv/encoding/json and is not decided.",
      NOTE_COMMON, "DESIGN.md §4 C07")
claim("C08", "sibling cross-check text encoder vs JSON encoder under tracked depth/has-written cells, event-sequence check of the header, Fourier-Motzkin bounds proof over the configured width",
      "Decides the header shape and time layout, delegation to the embedded JSON encoder exactly when nested with reset at depth 0, formatter/escaper agreement of depth-0 tokens with the JSON tokens, the separator two-state table, and that every hot-path slice whose bounds depend on a configuration integer is in range for ALL values of that integer (the 'no configured width makes a log call fail' clause).",
      NOTE_COMMON, "DESIGN.md §4 C08")

claim("C11", "linear-form (frame arithmetic) analysis of the skip argument along every entry-point call chain into both caller look-ups",
      "Decides for all 15 entry points and symbolically for Record's skip parameter that both look-ups evaluate to the frame of the statement calling the entry point (chain length d, helper depth h) and to each other, and that File/Line are written only under enableCaller. The runtime's own frame attribution for closures, defers, generics and inlining is a runtime contract and is not decided.",
      NOTE_COMMON, "DESIGN.md §4 C11")

claim("C01", "interprocedural must-gate analysis (path-sensitive typestate over call strings) from every logger's Append and the async worker to every delivery point; order-type evaluation of LevelRange.Enable; provenance rules for entry-point levels, ParseLevelRange, chaining and the rolling-file split",
      "Decides that every delivery (appender call, channel send, inner logger) is dominated on all call chains by the logger-range gate and, for referenced appenders, by that reference's own gate applied to the event's level; that Enable is min<=l<max on all 13 order types; that each of the 15 entry points gates and records at its own level; one delivery per reference per event; parsing and the generated .wf split tile correctly; chaining depends on a strict comparison of lower bounds. The sort-and-chain algorithm's full correctness over all reference sets is not decided.",
      NOTE_COMMON, "DESIGN.md §4 C01")
claim("C10", "path-sensitive typestate from each entry point through the recorder: must-gate before every hook / time.Now / lazy generator / Msgf call, exactly-once counting per emitting path, provenance of the values stored into the event",
      "Decides for all 15 entry points and every path that hooks, the wall clock, lazy generators and Msgf are evaluated only under the level gate of the logger serving the tag, that each set hook is called exactly once with the caller's context and an unset hook never, that the lazy generator runs exactly once on emitting paths, that the event is populated from those results, that no hook is reachable from the worker goroutine and that both layouts put context fields first.",
      NOTE_COMMON, "DESIGN.md §4 C10")

claim("C04", "ESP-style typestate simulation of each submitted item (enqueued xor counted, exactly once) through the inlined select/overflow code under every policy constant, and of each received item through the worker",
      "Decides per-item exactly-once accounting on every path of Append/Write under each of the three policies (loops handled by tracking the constant-valued exit flag), one-for-one counting of producer-side removals, no counter activity under Block or on the disabled branch, exactly one fan-out per received item in the worker, closed set of item types, atomic +1/load-only counter. The count identity over real schedules additionally needs Go channel semantics, which are trusted.",
      NOTE_COMMON, "DESIGN.md §4 C04")
claim("C05", "typestate/must-call analysis of Stop (signal through the queue then wait), worker exit discipline, dominance order in Destroy, owned-lifecycle pairing, close-on-all-paths and file-handle ownership transfer in the rotation step",
      "Decides the structural conditions for 'everything accepted before Stop is delivered when Stop returns and no descriptor is left': marker/close behind pending items then wait on every path; worker exits only on marker/close and signals completion; loggers stopped before appenders; started things are registered; owners start/stop the Lifecycle children they create; every file-holding field closed in Stop; at most two descriptors across rotations. Bounded time and races with concurrent log calls are not decided.",
      NOTE_COMMON, "DESIGN.md §4 C05")
claim("C06", "who-may-receive / who-may-spawn rules over the buffer channel plus per-policy typestate of the overflow handler (blocking-ness, removals, end state)",
      "Decides single FIFO queue + single consumer (the structural basis of per-producer order) and that each policy constant's buffer-full path does what its name says: Discard drops the arriving item without blocking, DiscardOldest removes from the head and keeps the arriving item without blocking, Block enqueues with a blocking send and drops nothing; parser names map to the same-named constants. Scheduling is not decided; channel FIFO is trusted.",
      NOTE_COMMON, "DESIGN.md §4 C06")

claim("C03", "alias (ownership) closure of pooled buffers against returned values, event typestate (live/released/sent), exactly-one-sink-write rule, constant-folded open flags, who-may-write effect scan of the hot path",
      "Decides the structural conditions for whole, unmixed lines: nothing aliasing a buffer released to the pool escapes a layout, events are not touched after release or released after being queued, one sink write of the whole slice per appender call, O_APPEND without O_TRUNC, and no non-atomic store to shared state on the log call path. Atomicity of write(2) and the scheduler are not decided.",
      NOTE_COMMON, "DESIGN.md §4 C03")
claim("C12", "must-NOT-gate analysis of every raw-write chain (same call-string engine as C01), per-iteration delivery count, alias closure of the []byte parameter against retention sinks, dominating-guard rules for the handle registry",
      "Decides that no level gate stands between a logger's Write (or the worker's raw branch) and any reference's Write, that each reference receives the bytes exactly once and unchanged, that the caller's slice is never retained without a copy, that the handle reports len(b), is get-or-create, and is bound only after a successful look-up (else Refresh fails). Ordering among concurrent writers is not decided.",
      NOTE_COMMON, "DESIGN.md §4 C12")

claim("C02", "binding-discipline rules on Refresh: must-store loop on the success path (dominance), return-shape classification of the matcher closure, who-may-write, look-up-before-store with an error branch",
      "Decides that every successful Refresh rebinds every registered tag unconditionally with the matcher's result for its own name, that the matcher can only return a configured-table hit, the configured root (built-in logger unless 'root' is configured) or a recursive result, that bindings have no other writers, that duplicate tags and the three invalid tag configurations raise errors. The longest-prefix string algorithm and map-order independence are statements about string values and are not decided.",
      NOTE_COMMON, "DESIGN.md §4 C02")
claim("C16", "lifecycle typestate of the bindings (nil-test dominance on every hot-path read, unbind loops post-dominating Destroy's initialised edge), once-guard dominance in Refresh, panic reachability, must-initialise rule for invoked interface fields",
      "Decides per operation that logging cannot dereference an unbound binding (fallback to the built-in logger), that Destroy is idempotent, unbinds everything and clears its state on every path, that a second Refresh is rejected before any effect, that registration panics iff live, that no explicit panic/exit is on the log path and that every interface field invoked unguarded is initialised by every construction path. Full histories up to length 8 are not enumerated.",
      NOTE_COMMON, "DESIGN.md §4 C16")

claim("C17", "recover-discipline and return-shape rules on Parse, reachability of go/exit, writer/reader table agreement between the STRING lexer rule of Expr.g4 and the unquoting routine (strconv's escape switch or the module's own), grammar-alternative vs walker-case agreement, provenance of map keys",
      "Decides that a panic below Parse becomes (nil, error), that the three return shapes are exactly those specified, that nothing below Parse inside the module can escape recovery (go/os.Exit/log.Fatal), that every escape and raw byte the lexer admits is accepted by the unquoter with the JSON meaning, that every alternative of `value` is handled, and that keys are built as <path>.type / <path>.<field>. Termination/stack depth of ANTLR prediction and exact flattening for all inputs are not decided.",
      NOTE_COMMON, "DESIGN.md §4 C17")

claim("C15", "table agreement registry x consumer interfaces x struct tags x converters, nil-on-a-branch dereference rule after type switches, inventory of panic sources on the configuration path each discharged by a guard, a registry fact or a linear-bounds proof, errcheck-style error consumption, key-normalisation provenance",
      "Decides that every registered plugin type can be instantiated through Refresh without hitting an unchecked assertion, an un-settable field, a nil pointer left by a non-exhaustive type switch, an unguarded reflect setter or an out-of-range index; that every literal default converts; that errors on the configuration path are consumed; that storage keys are built from normalised pieces; that the async buffer size is validated before make(chan). Substitution and '!'-expression semantics are run-time data flow and are not decided.",
      NOTE_COMMON, "DESIGN.md §4 C15")

# P13 (DESIGN.md section 10): what the partial evaluator adds per property: (technique suffix, level-text suffix)
P13 = {
 "C01": ("partial evaluation of sort-and-chain (all reference sets of size <= 4 up to order type), of every non-queueing logger's Append over reference sets x ranges x levels, of ParseLevelRange and of the 15 entry points over environment classes",
         "Additionally decided by evaluation over the listed finite domains: the ranges sort-and-chain produces, which references receive an event of each level, entry-point gating."),
 "C02": ("partial evaluation of the tag matcher (237 tag shapes x key subsets) and of Refresh/Destroy/registration/probe sequences (1282 sequences, both map orders) against a routing model",
         "Additionally decided over those domains: literal > longest underscore-delimited wildcard prefix > root, independent of map order; validation errors; rebinding."),
 "C03": ("partial evaluation of each file appender over a scripted clock and file system, and of both layouts over the C07/C08 event domain with caller-owned elements in the spare capacity of every field slice", "Additionally decided over the scripted steps and events: one write of the whole line per call, append-mode opens, formatting an event writes nothing into storage shared with other events."),
 "C04": ("partial evaluation of the queueing logger under 150 scripted schedules (channels as queues, goroutines as tasks stepped by the rule, both choices at multi-ready selects, racing producers)", "Additionally decided over those schedules: every submitted item delivered exactly once or counted as discarded exactly once, under each policy."),
 "C06": ("partial evaluation of the queueing logger under 150 scripted schedules (see C04)", "Additionally decided over those schedules: delivery order is submission order; Discard drops the arriving item, DiscardOldest the oldest queued ones, Block none; only Block makes a producer wait."),
 "C05": ("partial evaluation of the queueing logger under scripted schedules (Stop on a drained and on a full buffer, two lives), of the rolling-file logger end to end, of file appenders (descriptors open between calls and after Stop, incl. Stop after a failed rotation) and of Refresh/Destroy sequences (start/stop order)", "Additionally decided over those domains: every descriptor closed by Stop, at most two held, loggers stopped before appenders, everything started is stopped once."),
 "C07": ("partial evaluation of JSONLayout.ToBytes on 441 events + a 60-event header sequence, output decoded with encoding/json in the checker", "Additionally decided over the listed event domain: each line is one JSON object that decodes to the logged data, members in the specified order."),
 "C08": ("partial evaluation of TextLayout.ToBytes on the same events, tokens compared with the JSON tokens; header sequence over zones, instants, levels and tags in one evaluation state", "Additionally decided over the listed event domain: header shape for every zone/instant/level/tag incl. history, key=value tokens, truncation for widths -5..200."),
 "C09": ("partial evaluation of AppendString/AppendKey of both encoders on ~10.9k strings (every byte at every offset, UTF-8 boundary classes, all planes)", "Additionally decided over that string domain by decoding the output."),
 "C10": ("partial evaluation of the 15 entry points over environment classes (hook masks, caller modes, ranges, recycled events) and of level-range probes across Refresh/Destroy rebinding", "Additionally decided over those domains: hooks, clock, lazy generator run once iff the serving logger enables the level, also after the tag was rebound."),
 "C11": ("partial evaluation of the entry points with runtime.Caller/Callers/CallersFrames modelled over the interpreter's call stack (site sequence A,B,A,B, skip values around the constants)", "Additionally decided over those classes: default and fast look-up report the caller's site and agree; nothing is recorded when disabled."),
 "C12": ("partial evaluation of every non-queueing logger's Write over reference sets, of the queueing logger's Write under scripted schedules (buffer reused by the caller, write during a fan-out) and of handle sequences", "Additionally decided over those domains: ungated, exactly-once, verbatim delivery; handle stability and forwarding."),
 "C13": ("partial evaluation of the rolling appender over 43 scripted steps (boundaries, idle intervals, failed rotations, rejected writes, restart)", "Additionally decided for a single writer over the scripted steps: file name of the write's own interval, flags, rotate-before-write, the created file is published."),
 "C14": ("partial evaluation of the cleanup closure a rotation launches, captured with its bindings, over 54 scripted directory populations, and of the rolling-file logger's start-up over a directory holding old own files", "Additionally decided over those populations: the removed set equals the statement's (own 14-digit files older than the cut-off by modification time, nothing else)."),
 "C15": ("partial evaluation of toStorage+NewPlugin on every registered and seven synthetic plugin types (package reflect modelled over go/types) against a reference resolver, 1273 configurations, and of Refresh on 233 configurations; key normaliser on every short string", "Additionally decided over the generated configurations: value > default > error, ${} substitution, camel/kebab/snake/inline equivalence, element shapes, errors instead of panics, every logger x appender type instantiable."),
 "C16": ("partial evaluation of Refresh/Destroy/RegisterTag/GetLogger/log/write sequences (all of length <= 3 over ten operations, plus long scripted ones)", "Additionally decided over those sequences: no panic in any state, built-in logger when unbound, second Refresh rejected without effect, Destroy idempotent, registration refused exactly while live."),
 "C17": ("partial evaluation of expr.Parse through the generated lexer/parser and the interpreted ANTLR runtime (panic/recover modelled) on generated well-formed expressions x 4 spacings vs a reference flattener, malformed inputs, and a history phase", "Additionally decided over the generated inputs: exact flattening, (nil,error) for malformed input, history independence."),
 "C18": ("partial evaluation of RegisterTag and the tag helpers on ~25.9k names against the regular language of the statement", "Additionally decided by bounded-exhaustive evaluation over the boundary alphabet and all segment compositions."),
 "C19": ("partial evaluation of the rolling appender across one to three consecutive boundaries at which the next file cannot be created", "Additionally decided for a single writer: the line goes to the file kept open, no nil file is written, the next boundary retries, retention still asynchronous."),
 "C20": ("partial evaluation of each synchronous appender: the line is handed to the sink before the call returns", "Additionally decided over the scripted steps."),
}

PENDING_REASON = "check not built yet in this commit (static rule planned in DESIGN.md section 4); no claim is made until the rule exists and has been validated both ways"

def main():
    props = [json.loads(l) for l in open(os.path.join(HERE, "properties.jsonl"))]
    checks, na = [], []
    for p in props:
        pid = p["id"]
        if pid in CLAIMED:
            tech, text, note, ref = CLAIMED[pid]
            if pid in P13:
                tech = tech + "; P13 " + P13[pid][0] + " (an evaluation that agrees decides the clause and overrides the shape rule; one that leaves the modelled fragment is inconclusive and overrides nothing)"
                text = text + " " + P13[pid][1] + " Inputs outside the enumerated classes are not decided by the evaluation."
                ref = ref + " and §10"
            checks.append({
                "property_id": pid,
                "quick_cmd": f"./run {pid} quick",
                "thorough_cmd": f"./run {pid} thorough",
                "evidence_file": f"/verif/evidence/{pid}.json",
                "replay_cmd_template": f"./run {pid} --replay {{path}}",
                "engine": "vcheck",
                "level_claimed": {"category": "other", "text": text, "design_ref": ref},
                "level_note": note,
                "technique": "static analysis: " + tech,
            })
        else:
            na.append({"property_id": pid, "reason": NA.get(pid, PENDING_REASON)})
    m = {
        "version": 1,
        "setup_cmd": "./setup.sh",
        "hooks": {
            "guard": "verif",
            "enable": "none needed: the checks analyse /repo's source (go/packages + go/ssa) and never build or run it; no hook commits exist",
            "baseline_off_cmd": "cd /repo && go test -vet=off -count=1 -timeout 25m ./...",
            "source_commits": [],
            "add_only": True,
        },
        "engines": [{
            "name": "vcheck",
            "path": "/verif/checker",
            "serves_properties": sorted(CLAIMED),
            "kind_free_text": "repository-specific static analyser (Go, x/tools go/packages + go/ssa): dominance/guard analysis, path-sensitive typestate simulation, alias closure, provenance trees, finite-domain value sets, table agreement, and an abstract interpreter for go/ssa (library and OS models, reflect over go/types) that evaluates the analysed functions over explicit finite quotient domains against references written from the property statements; nothing of /repo is built or run",
        }],
        "checks": checks,
        "not_applicable": na,
        "notes": "All checks are static: they load /repo's current working tree on every run, evaluate obligations keyed by rule and resolved construct, write /verif/evidence/<id>.json and exit 1 with a VIOLATION line on any violated or undecided obligation that is not listed in known_findings.json.",
    }
    json.dump(m, open(os.path.join(HERE, "MANIFEST.json"), "w"), indent=1)
    print(f"claimed {len(checks)}, not_applicable {len(na)}")

NA = {}

if __name__ == "__main__":
    main()
